(* Syntax.v — compiled queries: the objects Parser.parse builds (selectors.py, filter.py,
   path.py), as mutually inductive types with their own list types so that Scheme can derive
   the mutual induction principle. *)
From JP Require Export Base Json.

Inductive binop :=
| BAnd | BOr | BEq | BNe | BLg | BLt | BGt | BLe | BGe | BIn | BContains | BRe.

Definition is_logical (o : binop) : bool := match o with BAnd | BOr => true | _ => false end.

Record reflags := mkFlags { f_a : bool; f_i : bool; f_m : bool; f_s : bool }.

Inductive fexpr :=
| FNil | FUndefined
| FBool (b : bool) | FInt (z : Z) | FFloat (n : num) | FStr (s : ustr)
| FRegex (pattern : ustr) (flags : reflags)
| FList (items : fexprs)
| FNot (e : fexpr)
| FInfix (l : fexpr) (o : binop) (r : fexpr)
| FSelf (p : segs)
| FRoot (fake : bool) (p : segs)
| FCtx (p : segs)
| FKey
| FFunc (name : ustr) (args : fexprs)
with fexprs := ENil | ECons (e : fexpr) (r : fexprs)
with selector :=
| SName (name : ustr)
| SIndex (i : Z)
| SSlice (start stop step : option Z)
| SWild
| SKeys
| SFilter (e : fexpr)
with sels := LNil | LCons (s : selector) (r : sels)
with segment :=
| GSel (s : selector)       (* a selector standing alone at path level: .name  .*  .~  bare slice *)
| GDescent                  (* ..  *)
| GList (items : sels)      (* [ ... ] *)
with segs := PNil | PCons (g : segment) (r : segs).

Scheme fexpr_mind := Induction for fexpr Sort Prop
  with fexprs_mind := Induction for fexprs Sort Prop
  with selector_mind := Induction for selector Sort Prop
  with sels_mind := Induction for sels Sort Prop
  with segment_mind := Induction for segment Sort Prop
  with segs_mind := Induction for segs Sort Prop.
Combined Scheme syntax_mutind from fexpr_mind, fexprs_mind, selector_mind, sels_mind, segment_mind, segs_mind.

Fixpoint fexprs_list (l : fexprs) : list fexpr := match l with ENil => [] | ECons e r => e :: fexprs_list r end.
Fixpoint sels_list (l : sels) : list selector := match l with LNil => [] | LCons s r => s :: sels_list r end.
Fixpoint segs_list (l : segs) : list segment := match l with PNil => [] | PCons g r => g :: segs_list r end.
Fixpoint fexprs_of (l : list fexpr) : fexprs := match l with [] => ENil | e :: r => ECons e (fexprs_of r) end.
Fixpoint sels_of (l : list selector) : sels := match l with [] => LNil | s :: r => LCons s (sels_of r) end.
Fixpoint segs_of (l : list segment) : segs := match l with [] => PNil | g :: r => PCons g (segs_of r) end.

(* a compiled JSONPath: selectors + fake_root flag; a compound path: first path and (op, path) pairs *)
Record jpath := mkPath { p_fake : bool; p_segs : segs }.
Inductive setop := OpUnion | OpIntersect.
Record query := mkQuery { q_first : jpath; q_rest : list (setop * jpath) }.

(* the environment attributes evaluation and printing read *)
Record env := mkEnv {
  e_root : ustr; e_fake_root : ustr; e_self : ustr; e_key : ustr; e_union : ustr;
  e_intersection : ustr; e_filter_context : ustr; e_keys : ustr;
  e_min_index : Z; e_max_index : Z;
  e_unicode_escape : bool; e_well_typed : bool; e_filter_caching : bool
}.

Definition default_env : env :=
  mkEnv [36%N] [94%N] [64%N] [35%N] [124%N] [38%N] [95%N] [126%N]
        (-9007199254740991) 9007199254740991 true true true.
