(* Cache.v — implementation model of filter-expression caching:
   filter.py (FilterExpression.volatile, FORCE_CACHE, BooleanExpression.cache_tree /
   cacheable_nodes, CachingFilterExpression) and selectors.py (Filter.resolve choosing the
   cache tree when env.filter_caching).

   cache_tree() wraps every non-volatile node that has children or FORCE_CACHE in a
   CachingFilterExpression with one mutable cell.  The wrapped nodes are in one-to-one
   correspondence with the positions of the expression tree whose node is [cacheable], so the
   cells are modelled as a store keyed by position (the list of child indices from the root of
   the filter expression).  A store lives for one call of Filter.resolve: it is created empty
   when the selector starts on its input and threaded through the candidates in order.
   Sub-queries (@..., $..., _...) keep no cells of the enclosing tree: Path.set_children is a
   no-op, and the filters nested in them build their own cache tree when they are resolved. *)
From JP Require Import Base Json PyStr PySlice PyJsonStr Syntax Eval.

(* FilterExpression.volatile, as the constructors compute it *)
Fixpoint volatile (e : fexpr) : bool :=
  match e with
  | FSelf _ | FKey => true
  | FRoot _ _ | FCtx _ => false
  | FList items => volatile_any items
  | FNot r => volatile r
  | FInfix l _ r => volatile l || volatile r
  | FFunc _ args => volatile_any args
  | _ => false
  end
with volatile_any (es : fexprs) : bool :=
  match es with ENil => false | ECons e r => volatile e || volatile_any r end.

Definition force_cache (e : fexpr) : bool := match e with FRoot _ _ | FCtx _ => true | _ => false end.

(* does expr.children() return anything? (Path.children() lists the nested filter expressions) *)
Fixpoint segs_have_filters (p : segs) : bool :=
  match p with
  | PNil => false
  | PCons (GList items) r =>
      (fix go (l : sels) : bool := match l with LNil => false | LCons (SFilter _) _ => true | LCons _ r' => go r' end) items
      || segs_have_filters r
  | PCons _ r => segs_have_filters r
  end.

Definition has_children (e : fexpr) : bool :=
  match e with
  | FList (ECons _ _) => true
  | FNot _ | FInfix _ _ _ => true
  | FFunc _ (ECons _ _) => true
  | FSelf p | FRoot _ p | FCtx p => segs_have_filters p
  | _ => false
  end.

(* the node gets a CachingFilterExpression wrapper *)
Definition cacheable (e : fexpr) : bool := negb (volatile e) && (force_cache e || has_children e).

(* BooleanExpression.cacheable_nodes(): is any node of cache_tree() a CachingFilterExpression?  The walk
   goes through children(); below a sub-query it reaches the nested filter expressions, but those are
   the original, unwrapped ones (Path.set_children is a no-op, so cache_tree() never installs wrappers
   there): nothing is found below a sub-query. *)
Fixpoint any_cacheable (e : fexpr) : bool :=
  cacheable e ||
  match e with
  | FList items => any_cacheable_list items
  | FNot r => any_cacheable r
  | FInfix l _ r => any_cacheable l || any_cacheable r
  | FFunc _ args => any_cacheable_list args
  | _ => false
  end
with any_cacheable_list (es : fexprs) : bool :=
  match es with ENil => false | ECons e r => any_cacheable e || any_cacheable_list r end.

Definition position := list nat.
Definition store := list (position * fval).

Fixpoint pos_eqb (a b : position) : bool :=
  match a, b with
  | [], [] => true
  | x :: a', y :: b' => Nat.eqb x y && pos_eqb a' b'
  | _, _ => false
  end.

Fixpoint store_get (p : position) (st : store) : option fval :=
  match st with
  | [] => None
  | (q, v) :: st' => if pos_eqb p q then Some v else store_get p st'
  end.

Definition store_put (p : position) (v : fval) (st : store) : store := (p, v) :: st.

Section Cache.
  Variable E : env.
  Variable re_full : ustr -> reflags -> ustr -> option bool.
  Variable re_search : ustr -> ustr -> option bool.

  Notation root_match := (root_match E).
  Notation filter_compare := (filter_compare re_full).
  Notation call_function := (call_function re_full re_search).

  (* CachingFilterExpression.evaluate around the node's own evaluate *)
  Definition cached (on : bool) (e : fexpr) (pos : position) (st : store)
             (compute : store -> result (fval * store)) : result (fval * store) :=
    if on && cacheable e then
      match store_get pos st with
      | Some v => Ok (v, st)
      | None => r <- compute st ;; Ok (fst r, store_put pos (fst r) (snd r))
      end
    else compute st.

  Definition unwrap1 (logical : bool) (v : fval) : fval :=
    if logical then v else match v with VNodes [n] => VVal (m_val n) | _ => v end.

  (* evaluation with the cache cells of one cache tree ([on] = the tree has wrappers at all) *)
  Fixpoint eval_fc (on : bool) (e : fexpr) (pos : position) (st : store) (root ctx cur key : json) {struct e}
    : result (fval * store) :=
    match e with
    | FNil => Ok (VVal JNull, st)
    | FUndefined => Ok (VUndef, st)
    | FBool b => Ok (VVal (JBool b), st)
    | FInt z => Ok (VVal (JNum (num_of_Z z)), st)
    | FFloat n => Ok (VVal (JNum n), st)
    | FStr s => Ok (VVal (JStr s), st)
    | FRegex p fl => Ok (VRegex p fl, st)
    | FKey => Ok (VVal key, st)
    | FList items =>
        cached on e pos st (fun st =>
          r <- eval_fsc on items pos 0 st root ctx cur key ;;
          Ok (VVal (JArr (map (fun v => match v with VVal j => j | _ => JNull end) (fst r))), snd r))
    | FNot r =>
        cached on e pos st (fun st =>
          x <- eval_fc on r (pos ++ [0]) st root ctx cur key ;;
          Ok (bool_val (negb (is_truthy (fst x))), snd x))
    | FInfix l o r =>
        cached on e pos st (fun st =>
          a <- eval_fc on l (pos ++ [0]) st root ctx cur key ;;
          b <- eval_fc on r (pos ++ [1]) (snd a) root ctx cur key ;;
          Ok (bool_val (filter_compare (unwrap1 (is_logical o) (fst a)) o (unwrap1 (is_logical o) (fst b))), snd b))
    | FSelf p =>
        cached on e pos st (fun st =>
          ns <- resolve_segs_c p root ctx [root_match cur] ;; Ok (VNodes ns, st))
    | FRoot fake p =>
        cached on e pos st (fun st =>
          ns <- resolve_segs_c p root ctx [root_match (if fake then JArr [root] else root)] ;; Ok (VNodes ns, st))
    | FCtx p =>
        cached on e pos st (fun st =>
          ns <- resolve_segs_c p root ctx [root_match ctx] ;; Ok (VNodes ns, st))
    | FFunc name args =>
        cached on e pos st (fun st =>
          match signature name with
          | None => Err EUnsupported
          | Some (ts, _) =>
              r <- eval_fsc on args pos 0 st root ctx cur key ;;
              us <- unpack_args ts (fst r) ;;
              v <- call_function name us ;;
              Ok (v, snd r)
          end)
    end
  with eval_fsc (on : bool) (es : fexprs) (pos : position) (i : nat) (st : store) (root ctx cur key : json) {struct es}
    : result (list fval * store) :=
    match es with
    | ENil => Ok ([], st)
    | ECons e r =>
        a <- eval_fc on e (pos ++ [i]) st root ctx cur key ;;
        b <- eval_fsc on r pos (S i) (snd a) root ctx cur key ;;
        Ok (fst a :: fst b, snd b)
    end
  (* Filter.resolve: expr = cache_tree() if cacheable_nodes and env.filter_caching else expression;
     the cells are shared by all candidates of this call *)
  with resolve_sel_c (s : selector) (root ctx : json) (m : jmatch) {struct s} : result (list jmatch) :=
    match s with
    | SName name => Ok (resolve_name name m)
    | SIndex i => Ok (resolve_index i m)
    | SSlice a b c => Ok (resolve_slice a b c m)
    | SWild => Ok (resolve_wild m)
    | SKeys => Ok (resolve_keys E m)
    | SFilter e =>
        let on := any_cacheable e && e_filter_caching E in
        (fix go (cands : list (json * json * jmatch)) (st : store) : result (list jmatch) :=
           match cands with
           | [] => Ok []
           | (cur, key, child) :: cands' =>
               r <- eval_fc on e [] st root ctx cur key ;;
               rest <- go cands' (snd r) ;;
               Ok ((if is_truthy (fst r) then [child] else []) ++ rest)
           end) (filter_candidates m) []
    end
  with resolve_sels_c (l : sels) (root ctx : json) (m : jmatch) {struct l} : result (list jmatch) :=
    match l with
    | LNil => Ok []
    | LCons s r => x <- resolve_sel_c s root ctx m ;; y <- resolve_sels_c r root ctx m ;; Ok (x ++ y)
    end
  with resolve_seg_c (g : segment) (root ctx : json) (ms : list jmatch) {struct g} : result (list jmatch) :=
    match g with
    | GSel s => concat_results (map (resolve_sel_c s root ctx) ms)
    | GDescent => Ok (flat_map resolve_descent ms)
    | GList items => concat_results (map (resolve_sels_c items root ctx) ms)
    end
  with resolve_segs_c (p : segs) (root ctx : json) (ms : list jmatch) {struct p} : result (list jmatch) :=
    match p with
    | PNil => Ok ms
    | PCons g r => ms' <- resolve_seg_c g root ctx ms ;; resolve_segs_c r root ctx ms'
    end.

  Definition finditer_c (p : jpath) (d ctx : json) : result (list jmatch) :=
    resolve_segs_c (p_segs p) d ctx [root_match (if p_fake p then JArr [d] else d)].
End Cache.

(* the positions of the expression tree that cache_tree() wraps in a CachingFilterExpression
   (used by the correspondence to tie the caching decisions to the code) *)
Fixpoint cache_positions (e : fexpr) (pos : position) : list position :=
  (if cacheable e then [pos] else []) ++
  match e with
  | FList items => cache_positions_list items pos 0
  | FNot r => cache_positions r (pos ++ [0])
  | FInfix l _ r => cache_positions l (pos ++ [0]) ++ cache_positions r (pos ++ [1])
  | FFunc _ args => cache_positions_list args pos 0
  | _ => []
  end
with cache_positions_list (es : fexprs) (pos : position) (i : nat) : list position :=
  match es with
  | ENil => []
  | ECons e r => cache_positions e (pos ++ [i]) ++ cache_positions_list r pos (S i)
  end.
