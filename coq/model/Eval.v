(* Eval.v — implementation model of synchronous evaluation:
   selectors.py (resolve), filter.py (evaluate), env.py (is_truthy, compare, _eq, _lt,
   _contains), function_extensions/{length,count,value,match,search,typeof}.py, path.py (finditer),
   as repaired by the fix: commits.  Code-shaped: one definition per method.

   Regular expressions are an oracle: [re_full pattern flags s] / [re_search pattern s]
   answer None for a pattern that does not compile (Section variables; for execution they
   are instantiated by rt/Regex.v). isinstance() (and the aliases is/type) and custom functions
   are not modelled (EUnsupported). *)
From JP Require Import Base Json PyStr PySlice PyJsonStr Syntax.

(* a JSONPathMatch: value, parts, path string (root and filter context are constant during
   one evaluation and are passed separately) *)
Record jmatch := mkMatch { m_val : json; m_parts : list part; m_path : ustr }.

(* what FilterExpression.evaluate can return *)
Inductive fval :=
| VNodes (ns : list jmatch)       (* a NodeList *)
| VVal (v : json)                 (* a JSON-like Python value (literal, node value, bool result, key, count) *)
| VUndef                          (* the UNDEFINED sentinel *)
| VRegex (pattern : ustr) (flags : reflags).

Section Eval.
  Variable E : env.
  Variable re_full : ustr -> reflags -> ustr -> option bool.     (* compiled.fullmatch(s) *)
  Variable re_search : ustr -> ustr -> option bool.              (* re.search(pattern, s) *)

  Definition lbr : N := 91.   (* [ *)
  Definition rbr : N := 93.   (* ] *)
  Definition quote : N := 39.

  Definition child_key (m : jmatch) (k : ustr) (v : json) : jmatch :=
    mkMatch v (m_parts m ++ [PKey k]) (m_path m ++ lbr :: canonical_string k ++ [rbr]).

  Definition child_idx (m : jmatch) (i : nat) (v : json) : jmatch :=
    mkMatch v (m_parts m ++ [PIdx i]) (m_path m ++ lbr :: str_of_Z (Z.of_nat i) ++ [rbr]).

  (* ---- selectors.py ------------------------------------------------------- *)

  (* PropertySelector.resolve, one match *)
  Definition resolve_name (name : ustr) (m : jmatch) : list jmatch :=
    match m_val m with
    | JObj ms => match lookup name ms with Some v => [child_key m name v] | None => [] end
    | _ => []
    end.

  (* IndexSelector._normalized_index *)
  Definition normalized_index (index : Z) (len : nat) : Z :=
    if Z.ltb index 0 && Z.leb (Z.abs index) (Z.of_nat len) then (Z.of_nat len + index)%Z else index.

  (* IndexSelector.resolve, one match *)
  Definition resolve_index (index : Z) (m : jmatch) : list jmatch :=
    match m_val m with
    | JObj ms =>
        let as_key := str_of_Z index in
        match lookup as_key ms with
        | Some v => [mkMatch v (m_parts m ++ [PKey as_key])
                             (m_path m ++ lbr :: quote :: str_of_Z index ++ [quote; rbr])]
        | None => []
        end
    | JArr xs =>
        let norm := normalized_index index (length xs) in
        (* getitem(obj, index): Python indexing, IndexError suppressed *)
        let i := if Z.ltb index 0 then (Z.of_nat (length xs) + index)%Z else index in
        if Z.ltb i 0 || Z.leb (Z.of_nat (length xs)) i then []
        else match nth_opt xs (Z.to_nat i) with
             | Some v => [child_idx m (Z.to_nat norm) v]
             | None => []
             end
    | _ => []
    end.

  (* KeysSelector._keys *)
  Definition resolve_keys (m : jmatch) : list jmatch :=
    match m_val m with
    | JObj ms =>
        map (fun ik => let '(i, (k, _)) := ik in
                       mkMatch (JStr k) (m_parts m ++ [PKey (e_keys E ++ k)])
                               (m_path m ++ lbr :: e_keys E ++ [rbr; lbr] ++ str_of_Z (Z.of_nat i) ++ [rbr]))
            (enumerate ms)
    | _ => []
    end.

  (* SliceSelector.resolve, one match *)
  Definition resolve_slice (start stop step : option Z) (m : jmatch) : list jmatch :=
    match m_val m with
    | JArr xs =>
        flat_map (fun i => match nth_opt xs i with Some v => [child_idx m i v] | None => [] end)
                 (slice_positions (length xs) start stop step)
    | _ => []
    end.

  (* WildSelector.resolve, one match *)
  Definition resolve_wild (m : jmatch) : list jmatch :=
    match m_val m with
    | JObj ms => map (fun kv => child_key m (fst kv) (snd kv)) ms
    | JArr xs => map (fun iv => child_idx m (fst iv) (snd iv)) (enumerate xs)
    | _ => []
    end.

  (* RecursiveDescentSelector._expand: container descendants only, pre-order *)
  Fixpoint expand_val (v : json) (m : jmatch) {struct v} : list jmatch :=
    match v with
    | JObj ms =>
        (fix go (ms : list (ustr * json)) : list jmatch :=
           match ms with
           | [] => []
           | (k, c) :: ms' =>
               (if is_container c then let cm := child_key m k c in cm :: expand_val c cm else [])
               ++ go ms'
           end) ms
    | JArr xs =>
        (fix go (xs : list json) (i : nat) : list jmatch :=
           match xs with
           | [] => []
           | c :: xs' =>
               (if is_container c then let cm := child_idx m i c in cm :: expand_val c cm else [])
               ++ go xs' (S i)
           end) xs 0
    | _ => []
    end.

  (* RecursiveDescentSelector.resolve, one match *)
  Definition resolve_descent (m : jmatch) : list jmatch := m :: expand_val (m_val m) m.

  (* ---- env.py ---------------------------------------------------------------- *)

  (* JSONPathEnvironment.is_truthy *)
  Definition is_truthy (v : fval) : bool :=
    match v with
    | VNodes [] => false
    | VNodes _ => true
    | VUndef => false
    | VVal JNull => true
    | VVal j => py_truthy j
    | VRegex _ _ => true
    end.

  (* JSONPathEnvironment._eq *)
  Definition filter_eq (left right : fval) : bool :=
    match left, right with
    | VNodes l, VNodes r => match l, r with [], [] => true | _, _ => false end
    | VNodes [], VUndef | VUndef, VNodes [] => true
    | VNodes _, _ | _, VNodes _ => false
    | VUndef, VUndef => true
    | VVal a, VVal b => json_eq a b
    | _, _ => false
    end.

  (* JSONPathEnvironment._lt *)
  Definition filter_lt (left right : fval) : bool :=
    match left, right with
    | VVal (JStr a), VVal (JStr b) => ustr_ltb a b
    | VVal (JNum a), VVal (JNum b) => num_ltb a b
    | _, _ => false
    end.

  (* substring test  a in b  for two strings *)
  Fixpoint is_substring (a b : ustr) : bool :=
    starts_with a b || match b with [] => false | _ :: b' => is_substring a b' end.

  (* JSONPathEnvironment._contains(container, item): Python's `item in container`,
     TypeError -> False *)
  Definition filter_contains (container item : fval) : bool :=
    match container with
    | VVal (JStr s) => match item with VVal (JStr a) => is_substring a s | _ => false end
    | VVal (JArr xs) =>
        match item with
        | VVal a => existsb (fun x => py_eq x a) xs
        | _ => false
        end
    | VVal (JObj ms) =>
        match item with
        | VVal (JStr a) => match lookup a ms with Some _ => true | None => false end
        | _ => false
        end
    | _ => false      (* a NodeList of several nodes never contains a plain value *)
    end.

  Definition is_container_val (v : fval) : bool :=
    match v with
    | VVal (JStr _) | VVal (JArr _) | VVal (JObj _) | VNodes _ => true
    | _ => false
    end.

  (* JSONPathEnvironment.compare *)
  Definition filter_compare (left : fval) (o : binop) (right : fval) : bool :=
    match o with
    | BAnd => is_truthy left && is_truthy right
    | BOr => is_truthy left || is_truthy right
    | BEq => filter_eq left right
    | BNe | BLg => negb (filter_eq left right)
    | BLt => filter_lt left right
    | BGt => filter_lt right left
    | BGe => filter_lt right left || filter_eq left right
    | BLe => filter_lt left right || filter_eq left right
    | BIn => is_container_val right && filter_contains right left
    | BContains => is_container_val left && filter_contains left right
    | BRe =>
        match right, left with
        | VRegex p fl, VVal (JStr s) => match re_full p fl s with Some b => b | None => false end
        | _, _ => false
        end
    end.

  (* ---- function_extensions ---------------------------------------------------- *)

  Definition name_length : ustr := [108; 101; 110; 103; 116; 104]%N.
  Definition name_count : ustr := [99; 111; 117; 110; 116]%N.
  Definition name_value : ustr := [118; 97; 108; 117; 101]%N.
  Definition name_match : ustr := [109; 97; 116; 99; 104]%N.
  Definition name_search : ustr := [115; 101; 97; 114; 99; 104]%N.
  Definition name_typeof : ustr := [116; 121; 112; 101; 111; 102]%N.           (* non-standard, function_extensions/typeof.py *)

  Inductive etype := TValue | TLogical | TNodes.

  (* arg_types / return_type of the registered FilterFunctions *)
  Definition signature (name : ustr) : option (list etype * etype) :=
    if ustr_eqb name name_length then Some ([TValue], TValue)
    else if ustr_eqb name name_count then Some ([TNodes], TValue)
    else if ustr_eqb name name_value then Some ([TNodes], TValue)
    else if ustr_eqb name name_match then Some ([TValue; TValue], TLogical)
    else if ustr_eqb name name_search then Some ([TValue; TValue], TLogical)
    else if ustr_eqb name name_typeof then Some ([TNodes], TValue)
    else None.

  (* FunctionExtension._unpack_node_lists for one argument *)
  Definition unpack_arg (t : etype) (a : fval) : fval :=
    match t, a with
    | TNodes, _ => a
    | _, VNodes [] => VUndef
    | _, VNodes [n] => VVal (m_val n)
    | _, _ => a
    end.

  Fixpoint unpack_args (ts : list etype) (args : list fval) : result (list fval) :=
    match args, ts with
    | [], _ => Ok []
    | a :: args', t :: ts' => r <- unpack_args ts' args' ;; Ok (unpack_arg t a :: r)
    | _ :: _, [] => Err (EBuiltin BIndexError)        (* func.arg_types[idx] *)
    end.

  Definition py_len (v : fval) : option Z :=
    match v with
    | VVal (JStr s) => Some (Z.of_nat (length s))
    | VVal (JArr xs) => Some (Z.of_nat (length xs))
    | VVal (JObj ms) => Some (Z.of_nat (length ms))
    | VNodes ns => Some (Z.of_nat (length ns))
    | _ => None
    end.

  Definition int_val (z : Z) : fval := VVal (JNum (num_of_Z z)).
  Definition bool_val (b : bool) : fval := VVal (JBool b).

  (* the strings TypeOf.__call__ returns (single_number_type = True, the registered default) *)
  Definition word_undefined : ustr := [117; 110; 100; 101; 102; 105; 110; 101; 100]%N.
  Definition word_null : ustr := [110; 117; 108; 108]%N.
  Definition word_string : ustr := [115; 116; 114; 105; 110; 103]%N.
  Definition word_array : ustr := [97; 114; 114; 97; 121]%N.
  Definition word_object : ustr := [111; 98; 106; 101; 99; 116]%N.
  Definition word_boolean : ustr := [98; 111; 111; 108; 101; 97; 110]%N.
  Definition word_number : ustr := [110; 117; 109; 98; 101; 114]%N.

  (* the isinstance chain of TypeOf.__call__ on a JSON value *)
  Definition typeof_word (j : json) : ustr :=
    match j with
    | JNull => word_null
    | JStr _ => word_string
    | JArr _ => word_array
    | JObj _ => word_object
    | JBool _ => word_boolean
    | JNum _ => word_number
    end.

  (* calling the function object with the unpacked arguments *)
  Definition call_function (name : ustr) (args : list fval) : result fval :=
    if ustr_eqb name name_length then
      match args with
      | [a] => Ok (match py_len a with Some n => int_val n | None => VUndef end)
      | _ => Err (EBuiltin BTypeError)
      end
    else if ustr_eqb name name_count then
      match args with
      | [a] => match py_len a with Some n => Ok (int_val n) | None => Err (EBuiltin BTypeError) end
      | _ => Err (EBuiltin BTypeError)
      end
    else if ustr_eqb name name_value then
      match args with
      | [VNodes [n]] => Ok (VVal (m_val n))
      | [VNodes _] => Ok VUndef
      | [a] => match py_len a with
               | Some 1%Z => Err (EBuiltin BAttributeError)     (* nodes[0].obj on a non-node *)
               | Some _ => Ok VUndef
               | None => Err (EBuiltin BTypeError)
               end
      | _ => Err (EBuiltin BTypeError)
      end
    else if ustr_eqb name name_match then
      match args with
      | [VVal (JStr s); VVal (JStr p)] =>
          Ok (bool_val (match re_full p (mkFlags false false false false) s with Some b => b | None => false end))
      | [_; _] => Ok (bool_val false)
      | _ => Err (EBuiltin BTypeError)
      end
    else if ustr_eqb name name_search then
      match args with
      | [VVal (JStr s); VVal (JStr p)] =>
          Ok (bool_val (match re_search p s with Some b => b | None => false end))
      | [_; _] => Ok (bool_val false)
      | _ => Err (EBuiltin BTypeError)
      end
    else if ustr_eqb name name_typeof then
      match args with
      | [VNodes []] => Ok (VVal (JStr word_undefined))              (* if not nodes *)
      | [VNodes [n]] => Ok (VVal (JStr (typeof_word (m_val n))))    (* values_or_singular: the one value *)
      | [VNodes _] => Ok (VVal (JStr word_array))                   (* values_or_singular: a list *)
      | [VVal j] =>                                                 (* not a NodeList *)
          if py_truthy j then Err (EBuiltin BAttributeError)        (* .values_or_singular on a non-NodeList *)
          else Ok (VVal (JStr word_undefined))                      (* falsy: if not nodes *)
      | [_] => Err (EBuiltin BAttributeError)                       (* UNDEFINED, a compiled pattern: truthy *)
      | _ => Err (EBuiltin BTypeError)
      end
    else Err EUnsupported.

  (* ---- filter.py evaluate + selectors.py resolve (mutual) -------------------- *)

  Definition root_match (v : json) : jmatch := mkMatch v [] (e_root E).

  (* the candidates a Filter selector iterates over, with the current key *)
  Definition filter_candidates (m : jmatch) : list (json * json * (jmatch)) :=
    match m_val m with
    | JObj ms => map (fun kv => (snd kv, JStr (fst kv), child_key m (fst kv) (snd kv))) ms
    | JArr xs => map (fun iv => (snd iv, JNum (num_of_Z (Z.of_nat (fst iv))), child_idx m (fst iv) (snd iv)))
                     (enumerate xs)
    | _ => []
    end.

  Fixpoint concat_results {A} (l : list (result (list A))) : result (list A) :=
    match l with
    | [] => Ok []
    | r :: l' => x <- r ;; y <- concat_results l' ;; Ok (x ++ y)
    end.

  Fixpoint eval_f (e : fexpr) (root ctx cur key : json) {struct e} : result fval :=
    match e with
    | FNil => Ok (VVal JNull)
    | FUndefined => Ok VUndef
    | FBool b => Ok (VVal (JBool b))
    | FInt z => Ok (VVal (JNum (num_of_Z z)))
    | FFloat n => Ok (VVal (JNum n))
    | FStr s => Ok (VVal (JStr s))
    | FRegex p fl => Ok (VRegex p fl)
    | FList items =>
        vs <- eval_fs items root ctx cur key ;;
        Ok (VVal (JArr (map (fun v => match v with VVal j => j | _ => JNull end) vs)))
    | FNot r =>
        v <- eval_f r root ctx cur key ;;
        Ok (bool_val (negb (is_truthy v)))
    | FInfix l o r =>
        lv <- eval_f l root ctx cur key ;;
        let lv := if is_logical o then lv else match lv with VNodes [n] => VVal (m_val n) | _ => lv end in
        rv <- eval_f r root ctx cur key ;;
        let rv := if is_logical o then rv else match rv with VNodes [n] => VVal (m_val n) | _ => rv end in
        Ok (bool_val (filter_compare lv o rv))
    | FSelf p => ns <- resolve_segs p root ctx [root_match cur] ;; Ok (VNodes ns)
    | FRoot fake p =>
        ns <- resolve_segs p root ctx [root_match (if fake then JArr [root] else root)] ;; Ok (VNodes ns)
    | FCtx p => ns <- resolve_segs p root ctx [root_match ctx] ;; Ok (VNodes ns)
    | FKey => Ok (VVal key)
    | FFunc name args =>
        match signature name with
        | None => Err EUnsupported
        | Some (ts, _) =>
            vs <- eval_fs args root ctx cur key ;;
            us <- unpack_args ts vs ;;
            call_function name us
        end
    end
  with eval_fs (es : fexprs) (root ctx cur key : json) {struct es} : result (list fval) :=
    match es with
    | ENil => Ok []
    | ECons e r => v <- eval_f e root ctx cur key ;; vs <- eval_fs r root ctx cur key ;; Ok (v :: vs)
    end
  with resolve_sel (s : selector) (root ctx : json) (m : jmatch) {struct s} : result (list jmatch) :=
    match s with
    | SName name => Ok (resolve_name name m)
    | SIndex i => Ok (resolve_index i m)
    | SSlice a b c => Ok (resolve_slice a b c m)
    | SWild => Ok (resolve_wild m)
    | SKeys => Ok (resolve_keys m)
    | SFilter e =>
        concat_results
          (map (fun c => let '(cur, key, child) := c in
                         v <- eval_f e root ctx cur key ;;
                         Ok (if is_truthy v then [child] else []))
               (filter_candidates m))
    end
  with resolve_sels (l : sels) (root ctx : json) (m : jmatch) {struct l} : result (list jmatch) :=
    match l with
    | LNil => Ok []
    | LCons s r => x <- resolve_sel s root ctx m ;; y <- resolve_sels r root ctx m ;; Ok (x ++ y)
    end
  with resolve_seg (g : segment) (root ctx : json) (ms : list jmatch) {struct g} : result (list jmatch) :=
    match g with
    | GSel s => concat_results (map (resolve_sel s root ctx) ms)
    | GDescent => Ok (flat_map resolve_descent ms)
    | GList items => concat_results (map (resolve_sels items root ctx) ms)
    end
  with resolve_segs (p : segs) (root ctx : json) (ms : list jmatch) {struct p} : result (list jmatch) :=
    match p with
    | PNil => Ok ms
    | PCons g r => ms' <- resolve_seg g root ctx ms ;; resolve_segs r root ctx ms'
    end.

  (* BooleanExpression.evaluate is is_truthy(expression.evaluate()): folded into SFilter above *)

  (* ---- path.py ------------------------------------------------------------------ *)

  (* JSONPath.finditer(data, filter_context) on an already loaded document *)
  Definition finditer (p : jpath) (d ctx : json) : result (list jmatch) :=
    resolve_segs (p_segs p) d ctx [root_match (if p_fake p then JArr [d] else d)].

  (* JSONPath.findall *)
  Definition findall (p : jpath) (d ctx : json) : result (list json) :=
    ms <- finditer p d ctx ;; Ok (map m_val ms).

  (* JSONPath.match *)
  Definition match_ (p : jpath) (d ctx : json) : result (option jmatch) :=
    ms <- finditer p d ctx ;; Ok (hd_error ms).

  (* `obj in _objs` on a Python list: == on values *)
  Definition py_in_list (v : json) (l : list json) : bool := existsb (fun x => py_eq x v) l.

  (* CompoundJSONPath.findall: the list-based implementation *)
  Fixpoint compound_findall_rest (objs : list json) (rest : list (setop * jpath)) (d ctx : json)
    : result (list json) :=
    match rest with
    | [] => Ok objs
    | (o, p) :: rest' =>
        objs' <- findall p d ctx ;;
        compound_findall_rest
          (match o with
           | OpUnion => objs ++ objs'
           | OpIntersect => filter (fun x => py_in_list x objs') objs
           end) rest' d ctx
    end.

  Definition compound_findall (q : query) (d ctx : json) : result (list json) :=
    objs <- findall (q_first q) d ctx ;; compound_findall_rest objs (q_rest q) d ctx.

  (* CompoundJSONPath.finditer: the iterator-based implementation *)
  Fixpoint compound_finditer_rest (ms : list jmatch) (rest : list (setop * jpath)) (d ctx : json)
    : result (list jmatch) :=
    match rest with
    | [] => Ok ms
    | (o, p) :: rest' =>
        ms' <- finditer p d ctx ;;
        compound_finditer_rest
          (match o with
           | OpUnion => ms ++ ms'
           | OpIntersect => filter (fun m => py_in_list (m_val m) (map m_val ms')) ms
           end) rest' d ctx
    end.

  Definition compound_finditer (q : query) (d ctx : json) : result (list jmatch) :=
    ms <- finditer (q_first q) d ctx ;; compound_finditer_rest ms (q_rest q) d ctx.

End Eval.
