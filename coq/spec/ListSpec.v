(* ListSpec.v — what property C12 demands, on plain lists.
   A query is the list of matches it will still produce. *)
From JP Require Import Base Fluent.

Section ListSpec.
  Variable A : Type.

  Definition lastn (n : nat) (l : list A) : list A := skipn (length l - n) l.

  Definition sstate := list (list A).

  Definition neg (n : Z) : bool := Z.ltb n 0.

  Definition sstep (st : sstate) (o : op) : sstate * list (event A) :=
    let on (q : nat) (f : list A -> sstate * list (event A)) :=
      match nth_opt st q with Some l => f l | None => (st, []) end in
    match o with
    | OLimit q n => on q (fun l => if neg n then (st, [EvValueError])
                                   else (set_nth st q (firstn (Z.to_nat n) l), []))
    | ODrop q n => on q (fun l => if neg n then (st, [EvValueError])
                                  else (set_nth st q (skipn (Z.to_nat n) l), []))
    | OTail q n => on q (fun l => if neg n then (st, [EvValueError])
                                  else (set_nth st q (lastn (Z.to_nat n) l), []))
    | OTake q n => on q (fun l => if neg n then (st, [EvValueError])
                                  else (set_nth st q (skipn (Z.to_nat n) l) ++ [firstn (Z.to_nat n) l],
                                        [EvNew 1]))
    | OTee q n => on q (fun l => if neg n then (st, [EvValueError])
                                 else (set_nth st q [] ++ repeat l (Z.to_nat n),
                                       [EvNew (length (repeat l (Z.to_nat n)))]))
    | OFirst q => on q (fun l => (set_nth st q (tl l), [EvItem (hd_error l)]))
    | OLast q => on q (fun l => (set_nth st q [], [EvItem (last_opt l)]))
    end.

  Fixpoint srun (ops : list op) (st : sstate) : sstate * list (event A) :=
    match ops with
    | [] => (st, [])
    | o :: ops' =>
        let '(st', ev) := sstep st o in
        let '(st'', ev') := srun ops' st' in
        (st'', ev ++ ev')
    end.

  Definition sobserve (ops : list op) (xs : list A) : list (event A) * list (list A) :=
    let '(st, ev) := srun ops [xs] in (ev, st).
End ListSpec.
