(* NormPath.v — RFC 9535 section 2.7 normalized paths: a printer from locations and a
   recogniser of the grammar.  Specification side.

     normalized-path      = root-identifier *(normal-index-segment)
     normal-index-segment = "[" normal-selector "]"
     normal-selector      = normal-name-selector / normal-index-selector
     normal-name-selector = %x27 *normal-single-quoted %x27
     normal-single-quoted = normal-unescaped / ESC normal-escapable
     normal-unescaped     = %x20-26 / %x28-5B / %x5D-D7FF / %xE000-10FFFF
     normal-escapable     = b / f / n / r / t / "'" / "\" / (%x75 normal-hexchar)   ; \u00xx, lower-case hex
     normal-index-selector = "0" / (DIGIT1 *DIGIT)                                                *)
From JP Require Import Base Json PyStr.

Definition nhex (n : N) : N := if N.ltb n 10 then (48 + n)%N else (87 + n)%N.

Definition norm_char (c : N) : ustr :=
  if N.eqb c 39 then [92; 39]%N
  else if N.eqb c 92 then [92; 92]%N
  else if N.eqb c 8 then [92; 98]%N
  else if N.eqb c 12 then [92; 102]%N
  else if N.eqb c 10 then [92; 110]%N
  else if N.eqb c 13 then [92; 114]%N
  else if N.eqb c 9 then [92; 116]%N
  else if N.ltb c 32 then [92; 117; 48; 48; nhex (c / 16); nhex (c mod 16)]%N
  else [c].

Definition norm_name (k : ustr) : ustr := 39%N :: flat_map norm_char k ++ [39%N].

Definition norm_segment (p : part) : ustr :=
  match p with
  | PKey k => 91%N :: norm_name k ++ [93%N]
  | PIdx i => 91%N :: str_of_Z (Z.of_nat i) ++ [93%N]
  end.

(* the normalized path of a location *)
Definition normpath (l : loc) : ustr := 36%N :: flat_map norm_segment l.

(* ---- recogniser ------------------------------------------------------------------ *)

Definition is_lhex (c : N) : bool := is_ascii_digit c || (N.leb 97 c && N.leb c 102).

(* the inside of a normal-name-selector up to and including the closing quote; returns the rest *)
Fixpoint scan_name (fuel : nat) (s : ustr) : option ustr :=
  match fuel with
  | O => None
  | S f =>
      match s with
      | [] => None
      | c :: s' =>
          if N.eqb c 39 then Some s'
          else if N.eqb c 92 then
            match s' with
            | e :: s'' =>
                if N.eqb e 98 || N.eqb e 102 || N.eqb e 110 || N.eqb e 114 || N.eqb e 116 || N.eqb e 39 || N.eqb e 92
                then scan_name f s''
                else if N.eqb e 117 then
                  match s'' with
                  | 48%N :: 48%N :: h1 :: h2 :: s3 =>
                      (* only code points below U+0020 that have no short escape are spelled \u00xx *)
                      if is_lhex h1 && is_lhex h2 && (N.eqb h1 48 || N.eqb h1 49) then scan_name f s3 else None
                  | _ => None
                  end
                else None
            | [] => None
            end
          else if N.ltb c 32 then None
          else scan_name f s'
      end
  end.

Fixpoint scan_digits (s : ustr) : ustr * ustr :=
  match s with
  | c :: s' => if is_ascii_digit c then let '(d, r) := scan_digits s' in (c :: d, r) else ([], s)
  | [] => ([], [])
  end.

Fixpoint scan_segments (fuel : nat) (s : ustr) : bool :=
  match fuel with
  | O => false
  | S f =>
      match s with
      | [] => true
      | 91%N :: 39%N :: s' =>
          match scan_name (S (length s')) s' with
          | Some (93%N :: rest) => scan_segments f rest
          | _ => false
          end
      | 91%N :: s' =>
          let '(d, rest) := scan_digits s' in
          canonical_nonneg d &&
          match rest with 93%N :: rest' => scan_segments f rest' | _ => false end
      | _ => false
      end
  end.

Definition valid_normpath (s : ustr) : bool :=
  match s with
  | 36%N :: s' => scan_segments (S (length s')) s'
  | _ => false
  end.
