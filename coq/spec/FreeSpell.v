(* FreeSpell.v — the spellings of a compiled query that the grammar allows beyond its canonical
   string form (Serialize.query_text).  Definitions only.

   A spelling is a sequence of LEXEMES (one scanner match each), every lexeme preceded by an
   arbitrary run of blanks (space, tab, LF, CR); the lexemes are the canonical tokens of the query
   (TokPrint.query_toks) written with choices:
     - blanks anywhere between lexemes, also after the "(" of a function call and around the
       colons of a slice (where the scanner's own rules swallow them);  not inside a lexeme;
     - a quoted name or string literal in single or double quotes, with any escapes that decode
       to the same string (Parser._decode_string_literal);
     - a bracketed segment holding one name, written ".name" (or "name" right after ".."), the
       wildcard written ".*" / "*", the keys selector written "~";  a lone "." (which the scanner
       skips) before a bracketed segment.
   Where no blank is written between two lexemes, the first must be one that the following
   character cannot extend or change ([fits]); this is the only side condition.
   Not covered (the token VALUES or the structure change): omitted slice step, redundant
   parentheses, the word operators and/or/not, capitalised literals, integer exponents. *)
From JP Require Import Base Json PyStr PyJsonStr Syntax Lex Parse Serialize TokPrint Printable Reparsable TokensOk.

(* ---- blanks ----------------------------------------------------------------------------- *)

Definition is_blank (c : N) : bool := N.eqb c 32 || N.eqb c 10 || N.eqb c 9 || N.eqb c 13.
Definition blanks (w : ustr) : bool := forallb is_blank w.

(* ---- lexemes ---------------------------------------------------------------------------- *)

Inductive lexeme :=
| XTok (t : token)                               (* a token written as its own value *)
| XStr (dq : bool) (body : ustr)                 (* '...' or "..." *)
| XRegex (p fl : ustr)                           (* /p/fl *)
| XSlice (a w1 w2 b w3 w4 c : ustr)              (* a w1 : w2 b w3 : w4 c *)
| XFunc (name wp : ustr)                         (* name( followed by blanks *)
| XProp (k : ustr)                               (* .k *)
| XBare (k : ustr)                               (* k, right after ".." *)
| XDot.                                          (* a lone ".", skipped by the scanner *)

Definition lex_text (l : lexeme) : ustr :=
  match l with
  | XTok t => tv t
  | XStr dq body => let q := if dq then 34%N else 39%N in q :: body ++ [q]
  | XRegex p fl => 47%N :: p ++ 47%N :: fl
  | XSlice a w1 w2 b w3 w4 c => a ++ w1 ++ 58%N :: w2 ++ b ++ w3 ++ 58%N :: w4 ++ c
  | XFunc name wp => name ++ 40%N :: wp
  | XProp k => 46%N :: k
  | XBare k => k
  | XDot => [46%N]
  end.

Definition lex_toks (l : lexeme) : list token :=
  match l with
  | XTok t => [t]
  | XStr dq body => [mkTok (if dq then TDQ else TSQ) body]
  | XRegex p fl => [mkTok TRePattern p; mkTok TReFlags fl]
  | XSlice a _ _ b _ _ c => [mkTok TSliceStart a; mkTok TSliceStop b; mkTok TSliceStep c]
  | XFunc name _ => [mkTok TFunction name]
  | XProp k => [mkTok TProperty k]
  | XBare k => [mkTok TBare k]
  | XDot => []
  end.

(* ---- which lexemes are well formed ------------------------------------------------------- *)

(* tokens whose text is fixed *)
Definition fixed_tokens : list (tkind * ustr) :=
  [(TLBracket, [91]); (TRBracket, [93]); (TComma, [44]); (TLParen, [40]); (TRParen, [41]);
   (TFilter, [63]); (TWild, [42]); (TDDot, [46; 46]); (TNot, [33]);
   (TAnd, [38; 38]); (TOr, [124; 124]); (TEq, [61; 61]); (TNe, [33; 61]); (TLg, [60; 62]);
   (TLt, [60]); (TGt, [62]); (TLe, [60; 61]); (TGe, [62; 61]); (TRe, [61; 126]);
   (TIn, [105; 110]); (TContains, [99; 111; 110; 116; 97; 105; 110; 115]);
   (TNil, [110; 105; 108]); (TUndefined, [117; 110; 100; 101; 102; 105; 110; 101; 100]);
   (TTrue, [116; 114; 117; 101]); (TFalse, [102; 97; 108; 115; 101])]%N.

(* the eight configurable identifiers *)
Definition ident_tokens (E : env) : list (tkind * ustr) :=
  [(TRoot, e_root E); (TFakeRoot, e_fake_root E); (TSelf, e_self E); (TKey, e_key E);
   (TUnion, e_union E); (TIntersect, e_intersection E); (TFilterCtx, e_filter_context E);
   (TKeys, e_keys E)].

Definition dec_text (t : ustr) : Prop := exists z, t = str_of_Z z.
Definition opt_dec_text (t : ustr) : Prop := t = [] \/ dec_text t.

(* a quoted body: the scanner's (?:[^q\\]|\\.)* followed by the quote reads exactly this body *)
Definition quoted_body (q : N) (body : ustr) : bool :=
  match scan_quoted q (S (length body)) (body ++ [q]) with
  | Some (v, []) => ustr_eqb v body
  | _ => false
  end.

(* a shorthand name: the whole string matches key_pattern *)
Definition key_name (k : ustr) : bool :=
  match k with c :: r => key_first c && forallb key_rest r | [] => false end.

(* the words the scanner reads as keywords where a bare name could stand *)
Definition reserved_words : list ustr :=
  [[97; 110; 100]; [111; 114]; [105; 110]; [110; 111; 116];
   [116; 114; 117; 101]; [84; 114; 117; 101]; [102; 97; 108; 115; 101]; [70; 97; 108; 115; 101];
   [110; 105; 108]; [78; 105; 108]; [110; 117; 108; 108]; [78; 117; 108; 108];
   [110; 111; 110; 101]; [78; 111; 110; 101];
   [99; 111; 110; 116; 97; 105; 110; 115]; [117; 110; 100; 101; 102; 105; 110; 101; 100];
   [109; 105; 115; 115; 105; 110; 103]]%N.

(* a name that may stand bare after "..": word characters only, not starting with "_", a digit
   of any script or a blank-like character, and not a keyword *)
Definition bare_name (k : ustr) : bool :=
  match k with
  | c :: _ =>
      key_name k && forallb is_word k && negb (N.eqb c 95) && negb (is_udigit c) && negb (py_isspace c) &&
      negb (existsb (ustr_eqb k) reserved_words)
  | [] => false
  end.

Definition lexeme_ok (E : env) (l : lexeme) : Prop :=
  match l with
  | XTok t =>
      In (tk t, tv t) fixed_tokens \/ In (tk t, tv t) (ident_tokens E) \/
      (tk t = TInt /\ dec_text (tv t)) \/
      (tk t = TFloat /\ exists n, float_repr n = Ok (tv t))
  | XStr dq body => quoted_body (if dq then 34%N else 39%N) body = true
  | XRegex p fl => regex_ok p = true /\ forallb is_flag fl = true
  | XSlice a w1 w2 b w3 w4 c =>
      opt_dec_text a /\ opt_dec_text b /\ dec_text c /\
      blanks w1 = true /\ blanks w2 = true /\ blanks w3 = true /\ blanks w4 = true /\
      (a = [] -> w1 = [])
  | XFunc name wp => fname_ok name = true /\ blanks wp = true
  | XProp k => key_name k = true
  | XBare k => bare_name k = true
  | XDot => True
  end.

(* ---- what may directly follow a lexeme ---------------------------------------------------- *)

Definition hd_ok (p : N -> bool) (rest : ustr) : bool :=
  match rest with [] => true | c :: _ => p c end.

(* after blanks, no colon (which would make an integer the start of a slice) *)
Definition no_colon (rest : ustr) : bool :=
  match skip_ws rest with 58%N :: _ => false | _ => true end.

Definition is_ident_kind (k : tkind) : bool :=
  match k with
  | TRoot | TFakeRoot | TSelf | TKey | TUnion | TIntersect | TFilterCtx | TKeys => true
  | _ => false
  end.

Definition fits (l : lexeme) (rest : ustr) : bool :=
  match l with
  | XTok t =>
      match tk t with
      | TInt =>
          hd_ok (fun c => negb (is_udigit c) && negb (N.eqb c 46) && negb (is_word c)) rest && no_colon rest
      | TFloat => hd_ok (fun c => negb (is_udigit c) && negb (N.eqb c 101) && negb (N.eqb c 69)) rest
      | TTrue | TFalse | TNil | TUndefined | TIn | TContains =>
          hd_ok (fun c => negb (is_word c) && negb (N.eqb c 40)) rest
      | TNot | TGt => hd_ok (fun c => negb (N.eqb c 61)) rest
      | TLt => hd_ok (fun c => negb (N.eqb c 61) && negb (N.eqb c 62)) rest
      | k => if is_ident_kind k then hd_ok (fun c => negb (sign_char c)) rest else true
      end
  | XStr _ _ => true
  | XRegex _ _ => hd_ok (fun c => negb (is_flag c)) rest
  | XSlice _ _ _ _ _ _ _ => hd_ok (fun c => negb (is_udigit c)) rest
  | XFunc _ _ => hd_ok (fun c => negb (py_isspace c)) rest
  | XProp _ => hd_ok (fun c => negb (key_rest c)) rest
  | XBare _ => hd_ok (fun c => negb (key_rest c) && negb (N.eqb c 40)) rest
  | XDot => hd_ok (fun c => negb (N.eqb c 46) && negb (key_first c)) rest
  end.

(* ---- a spelled lexeme sequence: blanks before every lexeme and at the end --------------------- *)

Definition item := (ustr * lexeme)%type.

Fixpoint render (items : list item) (wf : ustr) : ustr :=
  match items with
  | [] => wf
  | (w, l) :: r => w ++ lex_text l ++ render r wf
  end.

Fixpoint chain_ok (E : env) (items : list item) (wf : ustr) : Prop :=
  match items with
  | [] => blanks wf = true
  | (w, l) :: r =>
      blanks w = true /\ lexeme_ok E l /\ fits l (render r wf) = true /\ chain_ok E r wf
  end.

Definition chain_toks (items : list item) : list token := flat_map (fun it => lex_toks (snd it)) items.

(* ---- the lexemes of a query, with the choices ---------------------------------------------- *)

Definition X (k : tkind) (v : list N) : lexeme := XTok (mkTok k v).
Definition Xop (o : binop) : lexeme := XTok (op_token o).

(* Parser._decode_string_literal on a quoted body *)
Definition requote (body : ustr) : ustr := replace2 92 39 [39%N] (replace1 34 [92; 34]%N body).
Definition str_spells (s : ustr) (dq : bool) (body : ustr) : Prop :=
  quoted_body (if dq then 34%N else 39%N) body = true /\
  json_loads_str (if dq then body else requote body) = Some s.

Definition wrapx (e : fexpr) (x : list lexeme) : list lexeme :=
  match e with
  | FInfix _ o _ => if is_logical o then x else X TLParen [40%N] :: x ++ [X TRParen [41%N]]
  | _ => x
  end.

Definition is_compound (e : fexpr) : bool := match e with FInfix _ _ _ | FNot _ => true | _ => false end.

Definition step_text (c : option Z) : ustr := match c with Some z => str_of_Z z | None => [49%N] end.

Definition brx (x : list lexeme) : list lexeme := X TLBracket [91%N] :: x ++ [X TRBracket [93%N]].

(* the selector of a segment that consists of exactly one selector *)
Definition single_sel (g : segment) : option selector :=
  match g with
  | GSel s => Some s
  | GList (LCons s LNil) => Some s
  | _ => None
  end.

Section FreeToks.
  Variable E : env.

  Definition xcomma : lexeme := X TComma [44%N].

  Inductive fs_expr : fexpr -> list lexeme -> Prop :=
  | fe_nil : fs_expr FNil [X TNil [110; 105; 108]%N]
  | fe_undefined : fs_expr FUndefined [X TUndefined [117; 110; 100; 101; 102; 105; 110; 101; 100]%N]
  | fe_true : fs_expr (FBool true) [X TTrue [116; 114; 117; 101]%N]
  | fe_false : fs_expr (FBool false) [X TFalse [102; 97; 108; 115; 101]%N]
  | fe_int z : fs_expr (FInt z) [X TInt (str_of_Z z)]
  | fe_float n t : float_repr n = Ok t -> fs_expr (FFloat n) [X TFloat t]
  | fe_str s dq body : str_spells s dq body -> fs_expr (FStr s) [XStr dq body]
  | fe_regex p fl : fs_expr (FRegex p fl) [XRegex p (flags_text fl)]
  | fe_list items xs : fs_exprs items xs -> fs_expr (FList items) (brx (sep_by [xcomma] xs))
  | fe_not r x : fs_expr r x -> fs_expr (FNot r) (X TNot [33%N] :: wrapx r x)
  | fe_infix l o r a b :
      fs_expr l a -> fs_expr r b ->
      fs_expr (FInfix l o r)
        (if is_logical o then X TLParen [40%N] :: (a ++ Xop o :: b) ++ [X TRParen [41%N]]
         else wrapx l a ++ Xop o :: wrapx r b)
  | fe_self p x : fs_segs false p x -> fs_expr (FSelf p) (X TSelf (e_self E) :: x)
  | fe_root fake p x :
      fs_segs false p x ->
      fs_expr (FRoot fake p) ((if fake then X TFakeRoot (e_fake_root E) else X TRoot (e_root E)) :: x)
  | fe_ctx p x : fs_segs false p x -> fs_expr (FCtx p) (X TFilterCtx (e_filter_context E) :: x)
  | fe_key : fs_expr FKey [X TKey (e_key E)]
  | fe_func name args xs wp :
      fs_exprs args xs -> fs_expr (FFunc name args) (XFunc name wp :: sep_by [xcomma] xs ++ [X TRParen [41%N]])
  with fs_exprs : fexprs -> list (list lexeme) -> Prop :=
  | fes_nil : fs_exprs ENil []
  | fes_cons e r x xs : fs_expr e x -> fs_exprs r xs -> fs_exprs (ECons e r) (x :: xs)
  (* BooleanExpression._canonical_string: the parentheses are the canonical ones *)
  with fs_canon : fexpr -> nat -> list lexeme -> Prop :=
  | fc_and l r parent a b :
      fs_canon l 4 a -> fs_canon r 4 b ->
      fs_canon (FInfix l BAnd r) parent
        (let x := a ++ Xop BAnd :: b in
         if Nat.leb 4 parent then X TLParen [40%N] :: x ++ [X TRParen [41%N]] else x)
  | fc_or l r parent a b :
      fs_canon l 3 a -> fs_canon r 3 b ->
      fs_canon (FInfix l BOr r) parent
        (let x := a ++ Xop BOr :: b in
         if Nat.leb 3 parent then X TLParen [40%N] :: x ++ [X TRParen [41%N]] else x)
  | fc_not r parent a :
      fs_canon r 7 a ->
      fs_canon (FNot r) parent
        (let x := X TNot [33%N] :: a in
         if Nat.ltb 7 parent then X TLParen [40%N] :: x ++ [X TRParen [41%N]] else x)
  | fc_cmp l o r parent a b :
      is_logical o = false -> fs_expr l a -> fs_expr r b ->
      fs_canon (FInfix l o r) parent
        (let x := wrapx l a ++ Xop o :: wrapx r b in
         if Nat.leb 7 parent then X TLParen [40%N] :: x ++ [X TRParen [41%N]] else x)
  | fc_leaf e parent x : is_compound e = false -> fs_expr e x -> fs_canon e parent x
  with fs_sel : selector -> list lexeme -> Prop :=
  | fl_name k dq body : str_spells k dq body -> fs_sel (SName k) [XStr dq body]
  | fl_index i : fs_sel (SIndex i) [X TInt (str_of_Z i)]
  | fl_slice a b c w1 w2 w3 w4 :
      fs_sel (SSlice a b c) [XSlice (opt_text a) w1 w2 (opt_text b) w3 w4 (step_text c)]
  | fl_wild : fs_sel SWild [X TWild [42%N]]
  | fl_keys : fs_sel SKeys [X TKeys (e_keys E)]
  | fl_filter e x : fs_canon e 1 x -> fs_sel (SFilter e) (X TFilter [63%N] :: x)
  with fs_sels : sels -> list (list lexeme) -> Prop :=
  | fls_nil : fs_sels LNil []
  | fls_cons s r x xs : fs_sel s x -> fs_sels r xs -> fs_sels (LCons s r) (x :: xs)
  (* a segment; the flag says that the previous segment is ".." *)
  with fs_seg : bool -> segment -> list lexeme -> Prop :=
  | fg_sel_bracket dd s x :                          (* a selector standing alone: [s] *)
      bare_form s = true -> fs_sel s x -> fs_seg dd (GSel s) (brx x)
  | fg_list dd items xs : fs_sels items xs -> fs_seg dd (GList items) (brx (sep_by [xcomma] xs))
  | fg_descent dd : fs_seg dd GDescent [X TDDot [46; 46]%N]
  | fg_dot dd g x :                                  (* a lone "." before "[" *)
      fs_seg dd g (X TLBracket [91%N] :: x) -> fs_seg dd g (XDot :: X TLBracket [91%N] :: x)
  (* shorthand for a single name, the wildcard, the keys selector *)
  | fg_prop dd g k : single_sel g = Some (SName k) -> key_name k = true -> fs_seg dd g [XProp k]
  | fg_bare g k : single_sel g = Some (SName k) -> bare_name k = true -> fs_seg true g [XBare k]
  | fg_wild dd g : single_sel g = Some SWild -> fs_seg dd g [X TWild [42%N]]
  | fg_dotwild dd g : single_sel g = Some SWild -> fs_seg dd g [XDot; X TWild [42%N]]
  | fg_keys dd g : single_sel g = Some SKeys -> fs_seg dd g [X TKeys (e_keys E)]
  | fg_dotkeys dd g : single_sel g = Some SKeys -> fs_seg dd g [XDot; X TKeys (e_keys E)]
  with fs_segs : bool -> segs -> list lexeme -> Prop :=
  | fp_nil dd : fs_segs dd PNil []
  | fp_cons dd g r x xs :
      fs_seg dd g x -> fs_segs (match g with GDescent => true | _ => false end) r xs ->
      fs_segs dd (PCons g r) (x ++ xs).

  Definition fs_path (p : jpath) (x : list lexeme) : Prop :=
    exists xs, fs_segs false (p_segs p) xs /\
               x = (if p_fake p then X TFakeRoot (e_fake_root E) else X TRoot (e_root E)) :: xs.

  Fixpoint fs_rest (rest : list (setop * jpath)) (x : list lexeme) : Prop :=
    match rest with
    | [] => x = []
    | (o, p) :: rest' =>
        exists xp xs, fs_path p xp /\ fs_rest rest' xs /\
          x = (match o with OpUnion => X TUnion (e_union E) | OpIntersect => X TIntersect (e_intersection E) end)
              :: xp ++ xs
    end.

  Definition fs_query (q : query) (x : list lexeme) : Prop :=
    exists xp xs, fs_path (q_first q) xp /\ fs_rest (q_rest q) xs /\ x = xp ++ xs.
End FreeToks.

(* ---- the statement's relation ------------------------------------------------------------- *)

(* [t] is a spelling of [q], read by the scanner as the tokens [ts] *)
Definition spells_as (E : env) (q : query) (t : ustr) (ts : list token) : Prop :=
  exists items wf,
    fs_query E q (map snd items) /\ chain_ok E items wf /\ t = render items wf /\ ts = chain_toks items.

Definition spells (E : env) (q : query) (t : ustr) : Prop := exists ts, spells_as E q t ts.
