(* FreeSpell.v — the spellings of a compiled query that the grammar allows beyond its canonical
   string form (Serialize.query_text).  Definitions only.

   A spelling is a sequence of LEXEMES (one scanner match each), every lexeme preceded by an
   arbitrary run of blanks (space, tab, LF, CR); the lexemes are the canonical tokens of the query
   (TokPrint.query_toks) written with choices:
     - blanks anywhere between lexemes, also after the "(" of a function call and around the
       colons of a slice (where the scanner's own rules swallow them);  not inside a lexeme;
     - a quoted name or string literal in single or double quotes, with any escapes that decode
       to the same string (Parser._decode_string_literal);
     - a bracketed segment holding one name, written ".name" or just "name" (as after ".."), the
       wildcard written ".*" / "*", the keys selector written ".~" / "~";  a lone "." (which the
       scanner skips) anywhere between lexemes.
   Where no blank is written between two lexemes, the first must be one that the following
   character cannot extend or change ([fits]); this is the only side condition.
   Not covered (the token VALUES or the structure change): omitted slice step, redundant
   parentheses, the word operators and/or/not, capitalised literals, integer exponents. *)
From JP Require Import Base Json PyStr PyJsonStr Syntax Lex Parse Serialize TokPrint Printable Reparsable TokensOk.

(* ---- blanks ----------------------------------------------------------------------------- *)

Definition is_blank (c : N) : bool := N.eqb c 32 || N.eqb c 10 || N.eqb c 9 || N.eqb c 13.
Definition blanks (w : ustr) : bool := forallb is_blank w.

(* ---- lexemes ---------------------------------------------------------------------------- *)

Inductive lexeme :=
| XTok (t : token)                               (* a token written as its own value *)
| XStr (dq : bool) (body : ustr)                 (* '...' or "..." *)
| XRegex (p fl : ustr)                           (* /p/fl *)
| XSlice (a w1 w2 b w3 w4 c : ustr)              (* a w1 : w2 b w3 : w4 c *)
| XFunc (name wp : ustr)                         (* name( followed by blanks *)
| XProp (k : ustr)                               (* .k *)
| XBare (k : ustr)                               (* k, right after ".." *)
| XDot.                                          (* a lone ".", skipped by the scanner *)

Definition lex_text (l : lexeme) : ustr :=
  match l with
  | XTok t => tv t
  | XStr dq body => let q := if dq then 34%N else 39%N in q :: body ++ [q]
  | XRegex p fl => 47%N :: p ++ 47%N :: fl
  | XSlice a w1 w2 b w3 w4 c => a ++ w1 ++ 58%N :: w2 ++ b ++ w3 ++ 58%N :: w4 ++ c
  | XFunc name wp => name ++ 40%N :: wp
  | XProp k => 46%N :: k
  | XBare k => k
  | XDot => [46%N]
  end.

Definition lex_toks (l : lexeme) : list token :=
  match l with
  | XTok t => [t]
  | XStr dq body => [mkTok (if dq then TDQ else TSQ) body]
  | XRegex p fl => [mkTok TRePattern p; mkTok TReFlags fl]
  | XSlice a _ _ b _ _ c => [mkTok TSliceStart a; mkTok TSliceStop b; mkTok TSliceStep c]
  | XFunc name _ => [mkTok TFunction name]
  | XProp k => [mkTok TProperty k]
  | XBare k => [mkTok TBare k]
  | XDot => []
  end.

Definition X (k : tkind) (v : list N) : lexeme := XTok (mkTok k v).

(* ---- which lexemes are well formed ------------------------------------------------------- *)

(* tokens whose text is fixed *)
Definition fixed_tokens : list (tkind * ustr) :=
  [(TLBracket, [91]); (TRBracket, [93]); (TComma, [44]); (TLParen, [40]); (TRParen, [41]);
   (TFilter, [63]); (TWild, [42]); (TDDot, [46; 46]); (TNot, [33]);
   (TAnd, [38; 38]); (TOr, [124; 124]); (TEq, [61; 61]); (TNe, [33; 61]); (TLg, [60; 62]);
   (TLt, [60]); (TGt, [62]); (TLe, [60; 61]); (TGe, [62; 61]); (TRe, [61; 126]);
   (TIn, [105; 110]); (TContains, [99; 111; 110; 116; 97; 105; 110; 115]);
   (TNil, [110; 105; 108]); (TUndefined, [117; 110; 100; 101; 102; 105; 110; 101; 100]);
   (TTrue, [116; 114; 117; 101]); (TFalse, [102; 97; 108; 115; 101])]%N.

(* the eight configurable identifiers *)
Definition ident_tokens (E : env) : list (tkind * ustr) :=
  [(TRoot, e_root E); (TFakeRoot, e_fake_root E); (TSelf, e_self E); (TKey, e_key E);
   (TUnion, e_union E); (TIntersect, e_intersection E); (TFilterCtx, e_filter_context E);
   (TKeys, e_keys E)].

Definition dec_text (t : ustr) : Prop := exists z, t = str_of_Z z.
Definition opt_dec_text (t : ustr) : Prop := t = [] \/ dec_text t.

(* a quoted body: the scanner's (?:[^q\\]|\\.)* followed by the quote reads exactly this body *)
Definition quoted_body (q : N) (body : ustr) : bool :=
  match scan_quoted q (S (length body)) (body ++ [q]) with
  | Some (v, []) => ustr_eqb v body
  | _ => false
  end.

(* a shorthand name: the whole string matches key_pattern *)
Definition key_name (k : ustr) : bool :=
  match k with c :: r => key_first c && forallb key_rest r | [] => false end.

(* the words the scanner reads as keywords where a bare name could stand *)
Definition reserved_words : list ustr :=
  [[97; 110; 100]; [111; 114]; [105; 110]; [110; 111; 116];
   [116; 114; 117; 101]; [84; 114; 117; 101]; [102; 97; 108; 115; 101]; [70; 97; 108; 115; 101];
   [110; 105; 108]; [78; 105; 108]; [110; 117; 108; 108]; [78; 117; 108; 108];
   [110; 111; 110; 101]; [78; 111; 110; 101];
   [99; 111; 110; 116; 97; 105; 110; 115]; [117; 110; 100; 101; 102; 105; 110; 101; 100];
   [109; 105; 115; 115; 105; 110; 103]]%N.

(* a name that may stand bare after "..": word characters only, not starting with "_", a digit
   of any script or a blank-like character, and not a keyword *)
Definition bare_name (k : ustr) : bool :=
  match k with
  | c :: _ =>
      key_name k && forallb is_word k && negb (N.eqb c 95) && negb (is_udigit c) && negb (py_isspace c) &&
      negb (existsb (ustr_eqb k) reserved_words)
  | [] => false
  end.

Definition lexeme_ok (E : env) (l : lexeme) : Prop :=
  match l with
  | XTok t =>
      In (tk t, tv t) fixed_tokens \/ In (tk t, tv t) (ident_tokens E) \/
      (tk t = TInt /\ dec_text (tv t)) \/
      (tk t = TFloat /\ exists n, float_repr n = Ok (tv t))
  | XStr dq body => quoted_body (if dq then 34%N else 39%N) body = true
  | XRegex p fl => regex_ok p = true /\ forallb is_flag fl = true
  | XSlice a w1 w2 b w3 w4 c =>
      opt_dec_text a /\ opt_dec_text b /\ dec_text c /\
      blanks w1 = true /\ blanks w2 = true /\ blanks w3 = true /\ blanks w4 = true /\
      (a = [] -> w1 = [])
  | XFunc name wp => fname_ok name = true /\ blanks wp = true
  | XProp k => key_name k = true
  | XBare k => bare_name k = true
  | XDot => True
  end.

(* ---- what may directly follow a lexeme ---------------------------------------------------- *)

Definition hd_ok (p : N -> bool) (rest : ustr) : bool :=
  match rest with [] => true | c :: _ => p c end.

(* after blanks, no colon (which would make an integer the start of a slice) *)
Definition no_colon (rest : ustr) : bool :=
  match skip_ws rest with 58%N :: _ => false | _ => true end.

Definition is_ident_kind (k : tkind) : bool :=
  match k with
  | TRoot | TFakeRoot | TSelf | TKey | TUnion | TIntersect | TFilterCtx | TKeys => true
  | _ => false
  end.

Definition fits (l : lexeme) (rest : ustr) : bool :=
  match l with
  | XTok t =>
      match tk t with
      | TInt =>
          hd_ok (fun c => negb (is_udigit c) && negb (N.eqb c 46) && negb (is_word c)) rest && no_colon rest
      | TFloat => hd_ok (fun c => negb (is_udigit c) && negb (N.eqb c 101) && negb (N.eqb c 69)) rest
      | TTrue | TFalse | TNil | TUndefined | TIn | TContains =>
          hd_ok (fun c => negb (is_word c) && negb (N.eqb c 40)) rest
      | TNot | TGt => hd_ok (fun c => negb (N.eqb c 61)) rest
      | TLt => hd_ok (fun c => negb (N.eqb c 61) && negb (N.eqb c 62)) rest
      | k => if is_ident_kind k then hd_ok (fun c => negb (sign_char c)) rest else true
      end
  | XStr _ _ => true
  | XRegex _ _ => hd_ok (fun c => negb (is_flag c)) rest
  | XSlice _ _ _ _ _ _ _ => hd_ok (fun c => negb (is_udigit c)) rest
  | XFunc _ _ => hd_ok (fun c => negb (py_isspace c)) rest
  | XProp _ => hd_ok (fun c => negb (key_rest c)) rest
  | XBare _ => hd_ok (fun c => negb (key_rest c) && negb (N.eqb c 40)) rest
  | XDot => hd_ok (fun c => negb (N.eqb c 46) && negb (key_first c)) rest
  end.

(* ---- a spelled lexeme sequence: blanks before every lexeme and at the end --------------------- *)

Definition item := (ustr * lexeme)%type.

Fixpoint render (items : list item) (wf : ustr) : ustr :=
  match items with
  | [] => wf
  | (w, l) :: r => w ++ lex_text l ++ render r wf
  end.

Fixpoint chain_ok (E : env) (items : list item) (wf : ustr) : Prop :=
  match items with
  | [] => blanks wf = true
  | (w, l) :: r =>
      blanks w = true /\ lexeme_ok E l /\ fits l (render r wf) = true /\ chain_ok E r wf
  end.

Definition chain_toks (items : list item) : list token := flat_map (fun it => lex_toks (snd it)) items.

(* ---- the tokens of a query with shorthand ------------------------------------------------- *)

(* A segment that consists of one name, wildcard or keys selector can be written in brackets or
   in shorthand.  The choice is recorded in the query itself: [GSel s] stands for the shorthand
   form, [GList (LCons s LNil)] for the bracketed one.  [bracketed] forgets the choice. *)
Definition short_form (s : selector) : bool :=
  match s with SName _ | SWild | SKeys => true | _ => false end.

Fixpoint brk_expr (e : fexpr) : fexpr :=
  match e with
  | FList items => FList (brk_exprs items)
  | FNot r => FNot (brk_expr r)
  | FInfix l o r => FInfix (brk_expr l) o (brk_expr r)
  | FSelf p => FSelf (brk_segs p)
  | FRoot f p => FRoot f (brk_segs p)
  | FCtx p => FCtx (brk_segs p)
  | FFunc n args => FFunc n (brk_exprs args)
  | _ => e
  end
with brk_exprs (es : fexprs) : fexprs :=
  match es with ENil => ENil | ECons e r => ECons (brk_expr e) (brk_exprs r) end
with brk_sel (s : selector) : selector :=
  match s with SFilter e => SFilter (brk_expr e) | _ => s end
with brk_sels (l : sels) : sels :=
  match l with LNil => LNil | LCons s r => LCons (brk_sel s) (brk_sels r) end
with brk_seg (g : segment) : segment :=
  match g with
  | GSel s => if short_form s then GList (LCons s LNil) else GSel (brk_sel s)
  | GDescent => GDescent
  | GList items => GList (brk_sels items)
  end
with brk_segs (p : segs) : segs :=
  match p with PNil => PNil | PCons g r => PCons (brk_seg g) (brk_segs r) end.

Definition brk_path (p : jpath) : jpath := mkPath (p_fake p) (brk_segs (p_segs p)).
Definition bracketed (q : query) : query :=
  mkQuery (brk_path (q_first q)) (map (fun op => (fst op, brk_path (snd op))) (q_rest q)).

(* the token printer of spec/TokPrint.v, except that a [GSel] of a name, the wildcard or the keys
   selector is printed in shorthand: .name  *  ~ *)
Section ShToks.
  Variable E : env.

  Fixpoint sh_expr_toks (e : fexpr) {struct e} : result (list token) :=
    match e with
    | FNil => Ok (tk1 TNil [110; 105; 108]%N)
    | FUndefined => Ok (tk1 TUndefined [117; 110; 100; 101; 102; 105; 110; 101; 100]%N)
    | FBool true => Ok (tk1 TTrue [116; 114; 117; 101]%N)
    | FBool false => Ok (tk1 TFalse [102; 97; 108; 115; 101]%N)
    | FInt z => Ok (tk1 TInt (str_of_Z z))
    | FFloat n => t <- float_repr n ;; Ok (tk1 TFloat t)
    | FStr s => Ok (tk1 TSQ (canonical_body s))
    | FRegex p fl => Ok [mkTok TRePattern p; mkTok TReFlags (flags_text fl)]
    | FList items => xs <- sh_exprs_toks items ;; Ok (mkTok TLBracket [91%N] :: sep_by [comma] xs ++ [mkTok TRBracket [93%N]])
    | FNot r => x <- sh_expr_toks r ;; Ok (mkTok TNot [33%N] :: wrap_toks r x)
    | FInfix l o r =>
        a <- sh_expr_toks l ;; b <- sh_expr_toks r ;;
        Ok (if is_logical o then lparen :: (a ++ op_token o :: b) ++ [rparen]
            else wrap_toks l a ++ op_token o :: wrap_toks r b)
    | FSelf p => x <- sh_segs_toks p ;; Ok (mkTok TSelf (e_self E) :: x)
    | FRoot fake p => x <- sh_segs_toks p ;; Ok ((if fake then mkTok TFakeRoot (e_fake_root E) else mkTok TRoot (e_root E)) :: x)
    | FCtx p => x <- sh_segs_toks p ;; Ok (mkTok TFilterCtx (e_filter_context E) :: x)
    | FKey => Ok (tk1 TKey (e_key E))
    | FFunc name args => xs <- sh_exprs_toks args ;; Ok (mkTok TFunction name :: sep_by [comma] xs ++ [rparen])
    end
  with sh_exprs_toks (es : fexprs) {struct es} : result (list (list token)) :=
    match es with
    | ENil => Ok []
    | ECons e r => x <- sh_expr_toks e ;; xs <- sh_exprs_toks r ;; Ok (x :: xs)
    end
  with sh_canon_toks (e : fexpr) (parent : nat) {struct e} : result (list token) :=
    match e with
    | FInfix l BAnd r =>
        a <- sh_canon_toks l 4 ;; b <- sh_canon_toks r 4 ;;
        let x := a ++ op_token BAnd :: b in
        Ok (if Nat.leb 4 parent then lparen :: x ++ [rparen] else x)
    | FInfix l BOr r =>
        a <- sh_canon_toks l 3 ;; b <- sh_canon_toks r 3 ;;
        let x := a ++ op_token BOr :: b in
        Ok (if Nat.leb 3 parent then lparen :: x ++ [rparen] else x)
    | FNot r =>
        a <- sh_canon_toks r 7 ;;
        let x := mkTok TNot [33%N] :: a in
        Ok (if Nat.ltb 7 parent then lparen :: x ++ [rparen] else x)
    | FInfix l o r =>
        a <- sh_expr_toks l ;; b <- sh_expr_toks r ;;
        let x := wrap_toks l a ++ op_token o :: wrap_toks r b in
        Ok (if Nat.leb 7 parent then lparen :: x ++ [rparen] else x)
    | FNil => Ok (tk1 TNil [110; 105; 108]%N)
    | FUndefined => Ok (tk1 TUndefined [117; 110; 100; 101; 102; 105; 110; 101; 100]%N)
    | FBool true => Ok (tk1 TTrue [116; 114; 117; 101]%N)
    | FBool false => Ok (tk1 TFalse [102; 97; 108; 115; 101]%N)
    | FInt z => Ok (tk1 TInt (str_of_Z z))
    | FFloat n => t <- float_repr n ;; Ok (tk1 TFloat t)
    | FStr s => Ok (tk1 TSQ (canonical_body s))
    | FRegex p fl => Ok [mkTok TRePattern p; mkTok TReFlags (flags_text fl)]
    | FList items => xs <- sh_exprs_toks items ;; Ok (mkTok TLBracket [91%N] :: sep_by [comma] xs ++ [mkTok TRBracket [93%N]])
    | FSelf p => x <- sh_segs_toks p ;; Ok (mkTok TSelf (e_self E) :: x)
    | FRoot fake p => x <- sh_segs_toks p ;; Ok ((if fake then mkTok TFakeRoot (e_fake_root E) else mkTok TRoot (e_root E)) :: x)
    | FCtx p => x <- sh_segs_toks p ;; Ok (mkTok TFilterCtx (e_filter_context E) :: x)
    | FKey => Ok (tk1 TKey (e_key E))
    | FFunc name args => xs <- sh_exprs_toks args ;; Ok (mkTok TFunction name :: sep_by [comma] xs ++ [rparen])
    end
  with sh_sel_toks (s : selector) {struct s} : result (list token) :=
    match s with
    | SName k => Ok (tk1 TSQ (canonical_body k))
    | SIndex i => Ok (tk1 TInt (str_of_Z i))
    | SSlice a b c =>
        Ok [mkTok TSliceStart (opt_text a); mkTok TSliceStop (opt_text b);
            mkTok TSliceStep (match c with Some z => str_of_Z z | None => [49%N] end)]
    | SWild => Ok (tk1 TWild [42%N])
    | SKeys => Ok (tk1 TKeys (e_keys E))
    | SFilter e => x <- sh_canon_toks e 1 ;; Ok (mkTok TFilter [63%N] :: x)
    end
  with sh_sels_toks (l : sels) {struct l} : result (list (list token)) :=
    match l with
    | LNil => Ok []
    | LCons s r => x <- sh_sel_toks s ;; xs <- sh_sels_toks r ;; Ok (x :: xs)
    end
  with sh_seg_toks (g : segment) {struct g} : result (list token) :=
    let br (x : list token) := mkTok TLBracket [91%N] :: x ++ [mkTok TRBracket [93%N]] in
    match g with
    | GSel (SName k) => Ok (tk1 TProperty k)                                  (* .name *)
    | GSel SWild => Ok (tk1 TWild [42%N])                                     (* * *)
    | GSel SKeys => Ok (tk1 TKeys (e_keys E))                                 (* ~ *)
    | GSel ((SSlice _ _ _) as s) => x <- sh_sel_toks s ;; Ok (br x)
    | GSel s => sh_sel_toks s
    | GDescent => Ok (tk1 TDDot [46; 46]%N)
    | GList items => xs <- sh_sels_toks items ;; Ok (br (sep_by [comma] xs))
    end
  with sh_segs_toks (p : segs) {struct p} : result (list token) :=
    match p with
    | PNil => Ok []
    | PCons g r => x <- sh_seg_toks g ;; xs <- sh_segs_toks r ;; Ok (x ++ xs)
    end.

  Definition sh_path_toks (p : jpath) : result (list token) :=
    x <- sh_segs_toks (p_segs p) ;;
    Ok ((if p_fake p then mkTok TFakeRoot (e_fake_root E) else mkTok TRoot (e_root E)) :: x).

  Fixpoint sh_rest_toks (rest : list (setop * jpath)) : result (list token) :=
    match rest with
    | [] => Ok []
    | (o, p) :: rest' =>
        x <- sh_path_toks p ;; xs <- sh_rest_toks rest' ;;
        Ok ((match o with OpUnion => mkTok TUnion (e_union E) | OpIntersect => mkTok TIntersect (e_intersection E) end) :: x ++ xs)
    end.

  Definition sh_query_toks (q : query) : result (list token) :=
    x <- sh_path_toks (q_first q) ;; xs <- sh_rest_toks (q_rest q) ;; Ok (x ++ xs).
End ShToks.

(* ---- from tokens to lexemes: the remaining choices ------------------------------------------ *)

(* Parser._decode_string_literal on a quoted body *)
Definition requote (body : ustr) : ustr := replace2 92 39 [39%N] (replace1 34 [92; 34]%N body).
(* (a JSON string has no raw control character; the parser tests this separately for names) *)
Definition str_spells (s : ustr) (dq : bool) (body : ustr) : Prop :=
  quoted_body (if dq then 34%N else 39%N) body = true /\
  existsb (fun c => N.ltb c 32) body = false /\
  json_loads_str (if dq then body else requote body) = Some s.

(* Each token is written as a lexeme: a quoted name or string in either kind of quotes with any
   body that decodes to the same string; a shorthand name with or without its dot; the three
   slice tokens, the two regex tokens and a function name as one lexeme each, with blanks where
   the scanner swallows them; a lone dot anywhere. *)
Inductive lexemes_of : list token -> list lexeme -> Prop :=
| lo_nil : lexemes_of [] []
| lo_dot ts ls : lexemes_of ts ls -> lexemes_of ts (XDot :: ls)
| lo_str s dq body ts ls :
    str_spells s dq body ->
    lexemes_of ts ls -> lexemes_of (mkTok TSQ (canonical_body s) :: ts) (XStr dq body :: ls)
| lo_prop k ts ls : lexemes_of ts ls -> lexemes_of (mkTok TProperty k :: ts) (XProp k :: ls)
| lo_bare k ts ls : lexemes_of ts ls -> lexemes_of (mkTok TProperty k :: ts) (XBare k :: ls)
| lo_slice a b c w1 w2 w3 w4 ts ls :
    lexemes_of ts ls ->
    lexemes_of (mkTok TSliceStart a :: mkTok TSliceStop b :: mkTok TSliceStep c :: ts)
               (XSlice a w1 w2 b w3 w4 c :: ls)
| lo_regex p fl ts ls :
    lexemes_of ts ls -> lexemes_of (mkTok TRePattern p :: mkTok TReFlags fl :: ts) (XRegex p fl :: ls)
| lo_func name wp ts ls :
    lexemes_of ts ls -> lexemes_of (mkTok TFunction name :: ts) (XFunc name wp :: ls)
| lo_tok t ts ls : lexemes_of ts ls -> lexemes_of (t :: ts) (XTok t :: ls).

(* ---- the statement's relation ------------------------------------------------------------- *)

(* [t] is a spelling of [q], read by the scanner as the tokens [ts]: some choice of shorthand
   ([qs], the same query up to that choice), the lexemes of its tokens, blanks between them *)
Definition spells_as (E : env) (q : query) (t : ustr) (ts : list token) : Prop :=
  exists qs ts0 items wf,
    bracketed qs = bracketed q /\ sh_query_toks E qs = Ok ts0 /\
    lexemes_of ts0 (map snd items) /\ chain_ok E items wf /\ t = render items wf /\ ts = chain_toks items.

Definition spells (E : env) (q : query) (t : ustr) : Prop := exists ts, spells_as E q t ts.
