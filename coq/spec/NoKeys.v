(* NoKeys.v — "a $-rooted query without the non-standard keys selector" as a boolean predicate. *)
From JP Require Import Base Json Syntax.

Fixpoint nk_expr (e : fexpr) : bool :=
  match e with
  | FList items => nk_exprs items
  | FNot r => nk_expr r
  | FInfix l _ r => nk_expr l && nk_expr r
  | FSelf p | FRoot _ p | FCtx p => nk_segs p
  | FFunc _ args => nk_exprs args
  | _ => true
  end
with nk_exprs (es : fexprs) : bool :=
  match es with ENil => true | ECons e r => nk_expr e && nk_exprs r end
with nk_sel (s : selector) : bool :=
  match s with SKeys => false | SFilter e => nk_expr e | _ => true end
with nk_sels (l : sels) : bool :=
  match l with LNil => true | LCons s r => nk_sel s && nk_sels r end
with nk_seg (g : segment) : bool :=
  match g with GSel s => nk_sel s | GDescent => true | GList items => nk_sels items end
with nk_segs (p : segs) : bool :=
  match p with PNil => true | PCons g r => nk_seg g && nk_segs r end.

(* only the top-level selectors matter for the locations of the query's own matches *)
Fixpoint top_nokeys (p : segs) : bool :=
  match p with
  | PNil => true
  | PCons (GSel SKeys) _ => false
  | PCons (GList items) r =>
      (fix go (l : sels) : bool := match l with LNil => true | LCons SKeys _ => false | LCons _ r' => go r' end) items
      && top_nokeys r
  | PCons _ r => top_nokeys r
  end.

(* the query that addresses one location: one bracketed name or index selector per step *)
Definition path_of_loc (l : loc) : segs :=
  segs_of (map (fun p => match p with
                         | PKey k => GList (LCons (SName k) LNil)
                         | PIdx i => GList (LCons (SIndex (Z.of_nat i)) LNil)
                         end) l).
