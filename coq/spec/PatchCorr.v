(* PatchCorr.v — the vocabulary of the C05 / C15 statements: which model pointers are
   standard, which RFC 6902 operation a model operation stands for, and what it means
   for a model result to refine an RFC outcome.  Specification side (moved verbatim out
   of props/C05.v and props/C15.v so that statements and proofs share one definition). *)
From JP Require Import Base Json PyStr Pointer Patch Rfc6901 Rfc6902 PointerDomain.

(* a pointer as JSONPointer(text) builds it: canonical integers as ints, everything else as
   strings (and no token that triggers a documented pointer extension) *)
Definition normal_part (x : ppart) : Prop := index_of_text (part_text x) = Ok x.
Definition std_pointer (p : pointer) : Prop :=
  Forall normal_part p /\ outside_extensions (tokens p) = true.

(* the RFC 6902 operation a model operation stands for *)
Inductive corresponds : pop -> rop -> Prop :=
| CAdd p v : std_pointer p -> corresponds (OpAdd p v) (RAdd (tokens p) v)
| CRemove p : std_pointer p -> corresponds (OpRemove p) (RRemove (tokens p))
| CReplace p v : std_pointer p -> corresponds (OpReplace p v) (RReplace (tokens p) v)
| CMove f p : std_pointer f -> std_pointer p -> corresponds (OpMove f p) (RMove (tokens f) (tokens p))
| CCopy f p : std_pointer f -> std_pointer p -> corresponds (OpCopy f p) (RCopy (tokens f) (tokens p))
| CTest p v : std_pointer p -> corresponds (OpTest p v) (RTest (tokens p) v).

(* the result is the RFC's document, or a patch error exactly when the RFC says error
   (the dedicated test-failure kind exactly for a failed test) *)
Definition refines (r : result json) (o : outcome) : Prop :=
  match o with
  | OOk d => r = Ok d
  | OError => exists k, r = Err (EPatch k)
  | OTestFailed => r = Err (EPatch KPatchTest)
  end.

(* the domain of the add-like operations: like std_pointer, except that the last token (which is
   never resolved) is exempt from the extension test *)
Definition std_parent (p : pointer) : Prop :=
  Forall normal_part p /\ parent_outside_extensions (tokens p) = true.

(* the parent the add-like operations write into is not an array (for an array parent the last
   token is an index, and the extension spellings of an index - negative, '#'-prefixed - are
   outside RFC 6902) *)
Definition parent_not_array (ts : list ustr) (d : json) : Prop :=
  forall xs, rfc_get (removelast ts) d <> Some (JArr xs).
