(* NormDomain.v — the decidable side conditions of the string-form theorems of C10 (definitions
   only; extracted, so that the correspondence evaluates them on every compiled query):
   - bare_ok: a selector standing alone at path level is a name, a wildcard, a keys selector or a
     slice (the forms the parser builds as GSel);
   - floats_stable: every float literal prints the same after being reread from its repr;
   - c10_domain: the conjunction the C10 theorems are stated for. *)
From JP Require Import Base Json PyStr Syntax Lex Parse Serialize TokPrint Printable Reparsable Gate.

Definition float_stable (n : num) : bool :=
  match float_repr n with
  | Ok t => match parse_float_literal t with
            | Ok (FFloat n') => match float_repr n' with Ok t' => ustr_eqb t' t | Err _ => false end
            | _ => true
            end
  | Err _ => true
  end.

Fixpoint bk_expr (e : fexpr) : bool :=
  match e with
  | FList items => bk_exprs items
  | FNot r => bk_expr r
  | FInfix l _ r => bk_expr l && bk_expr r
  | FSelf p | FRoot _ p | FCtx p => bk_segs p
  | FFunc _ args => bk_exprs args
  | _ => true
  end
with bk_exprs (es : fexprs) : bool :=
  match es with ENil => true | ECons e r => bk_expr e && bk_exprs r end
with bk_sel (s : selector) : bool :=
  match s with SFilter e => bk_expr e | _ => true end
with bk_sels (l : sels) : bool :=
  match l with LNil => true | LCons s r => bk_sel s && bk_sels r end
with bk_seg (g : segment) : bool :=
  match g with
  | GSel (SName _) | GSel SWild | GSel SKeys | GSel (SSlice _ _ _) => true
  | GSel _ => false
  | GDescent => true
  | GList items => bk_sels items
  end
with bk_segs (p : segs) : bool :=
  match p with PNil => true | PCons g r => bk_seg g && bk_segs r end.

Definition bare_ok (q : query) : bool :=
  bk_segs (p_segs (q_first q)) && forallb (fun op => bk_segs (p_segs (snd op))) (q_rest q).

Fixpoint fl_expr (e : fexpr) : bool :=
  match e with
  | FFloat n => float_stable n
  | FList items => fl_exprs items
  | FNot r => fl_expr r
  | FInfix l _ r => fl_expr l && fl_expr r
  | FSelf p | FRoot _ p | FCtx p => fl_segs p
  | FFunc _ args => fl_exprs args
  | _ => true
  end
with fl_exprs (es : fexprs) : bool :=
  match es with ENil => true | ECons e r => fl_expr e && fl_exprs r end
with fl_sel (s : selector) : bool :=
  match s with SFilter e => fl_expr e | _ => true end
with fl_sels (l : sels) : bool :=
  match l with LNil => true | LCons s r => fl_sel s && fl_sels r end
with fl_seg (g : segment) : bool :=
  match g with GSel s => fl_sel s | GDescent => true | GList items => fl_sels items end
with fl_segs (p : segs) : bool :=
  match p with PNil => true | PCons g r => fl_seg g && fl_segs r end.

Definition floats_stable (q : query) : bool :=
  fl_segs (p_segs (q_first q)) && forallb (fun op => fl_segs (p_segs (snd op))) (q_rest q).


(* gate: the typing / index gate (C07); printable, reparsable: shape invariants of Parser.parse;
   floats_stable: each float literal's repr is a fixed point of reading it back *)
Definition c10_domain (E : env) (ro : ustr -> option bool) (q : query) : bool :=
  gate_query (e_min_index E) (e_max_index E) q && printable ro q && reparsable E q && floats_stable q.
