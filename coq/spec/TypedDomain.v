(* TypedDomain.v — the two side conditions, beyond RFC 9535 typing (spec/Rfc9535Typing.v), under
   which a well-typed query is accepted by the compiler (definitions only):
     bounds_ok lo hi q  : every index and every slice bound of q, at any depth, lies in [lo, hi];
     literals_ok ro q   : every float literal has a repr that reads back as the same float
                          (Printable.float_ok, NormDomain.float_stable) and every regular-
                          expression literal is lexable (Printable.regex_ok) and compiles (ro). *)
From JP Require Import Base Json PyStr Syntax Lex Parse Serialize Printable Gate NormDomain.

Section Bounds.
  Variable lo hi : Z.

  Fixpoint bd_expr (e : fexpr) : bool :=
    match e with
    | FList items => bd_exprs items
    | FNot r => bd_expr r
    | FInfix l _ r => bd_expr l && bd_expr r
    | FSelf p | FRoot _ p | FCtx p => bd_segs p
    | FFunc _ args => bd_exprs args
    | _ => true
    end
  with bd_exprs (es : fexprs) : bool :=
    match es with ENil => true | ECons e r => bd_expr e && bd_exprs r end
  with bd_sel (s : selector) : bool :=
    match s with
    | SIndex i => in_range lo hi i
    | SSlice a b c => opt_in_range lo hi a && opt_in_range lo hi b && opt_in_range lo hi c
    | SFilter e => bd_expr e
    | _ => true
    end
  with bd_sels (l : sels) : bool :=
    match l with LNil => true | LCons s r => bd_sel s && bd_sels r end
  with bd_seg (g : segment) : bool :=
    match g with GSel s => bd_sel s | GDescent => true | GList items => bd_sels items end
  with bd_segs (p : segs) : bool :=
    match p with PNil => true | PCons g r => bd_seg g && bd_segs r end.

  Definition bounds_ok (q : query) : bool :=
    bd_segs (p_segs (q_first q)) && forallb (fun op => bd_segs (p_segs (snd op))) (q_rest q).
End Bounds.

Section Literals.
  Variable ro : ustr -> option bool.

  Definition regex_lit_ok (p : ustr) : bool :=
    regex_ok p && match ro p with Some true => true | _ => false end.

  Fixpoint lt_expr (e : fexpr) : bool :=
    match e with
    | FFloat n => float_ok n && float_stable n
    | FRegex p _ => regex_lit_ok p
    | FList items => lt_exprs items
    | FNot r => lt_expr r
    | FInfix l _ r => lt_expr l && lt_expr r
    | FSelf p | FRoot _ p | FCtx p => lt_segs p
    | FFunc _ args => lt_exprs args
    | _ => true
    end
  with lt_exprs (es : fexprs) : bool :=
    match es with ENil => true | ECons e r => lt_expr e && lt_exprs r end
  with lt_sel (s : selector) : bool :=
    match s with SFilter e => lt_expr e | _ => true end
  with lt_sels (l : sels) : bool :=
    match l with LNil => true | LCons s r => lt_sel s && lt_sels r end
  with lt_seg (g : segment) : bool :=
    match g with GSel s => lt_sel s | GDescent => true | GList items => lt_sels items end
  with lt_segs (p : segs) : bool :=
    match p with PNil => true | PCons g r => lt_seg g && lt_segs r end.

  Definition literals_ok (q : query) : bool :=
    lt_segs (p_segs (q_first q)) && forallb (fun op => lt_segs (p_segs (snd op))) (q_rest q).
End Literals.
