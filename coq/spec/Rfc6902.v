(* Rfc6902.v — RFC 6902 (JSON Patch) transcribed on reference tokens, by structural
   descent into the document (DESIGN.md Appendix B).  No reference to the implementation
   model.  None / OError = the RFC says the operation is an error. *)
From JP Require Import Base Json PyStr Rfc6901.

Inductive rop :=
| RAdd (path : list ustr) (v : json)
| RRemove (path : list ustr)
| RReplace (path : list ustr) (v : json)
| RMove (from_ : list ustr) (path : list ustr)
| RCopy (from_ : list ustr) (path : list ustr)
| RTest (path : list ustr) (v : json).

(* ---- members and elements --------------------------------------------------- *)

Fixpoint member_set (ms : list (ustr * json)) (k : ustr) (v : json) : list (ustr * json) :=
  match ms with
  | [] => [(k, v)]
  | (k', v') :: ms' => if ustr_eqb k k' then (k', v) :: ms' else (k', v') :: member_set ms' k v
  end.

Fixpoint member_remove (ms : list (ustr * json)) (k : ustr) : option (list (ustr * json)) :=
  match ms with
  | [] => None
  | (k', v') :: ms' =>
      if ustr_eqb k k' then Some ms'
      else option_map (cons (k', v')) (member_remove ms' k)
  end.

Fixpoint elem_insert (xs : list json) (i : nat) (v : json) : option (list json) :=
  match i, xs with
  | O, _ => Some (v :: xs)
  | S i', x :: xs' => option_map (cons x) (elem_insert xs' i' v)
  | S _, [] => None
  end.

Fixpoint elem_remove (xs : list json) (i : nat) : option (list json) :=
  match xs, i with
  | [], _ => None
  | _ :: xs', O => Some xs'
  | x :: xs', S i' => option_map (cons x) (elem_remove xs' i')
  end.

Fixpoint elem_replace (xs : list json) (i : nat) (v : json) : option (list json) :=
  match xs, i with
  | [], _ => None
  | _ :: xs', O => Some (v :: xs')
  | x :: xs', S i' => option_map (cons x) (elem_replace xs' i' v)
  end.

(* an array index token denoting an existing element *)
Definition elem_index (xs : list json) (t : ustr) : option nat :=
  match array_index t with
  | Some z => if Z.ltb z (Z.of_nat (length xs)) then Some (Z.to_nat z) else None
  | None => None
  end.

(* an array index token for insertion: an existing position, the length, or "-" *)
Definition insert_index (xs : list json) (t : ustr) : option nat :=
  if ustr_eqb t [ch_minus] then Some (length xs)
  else match array_index t with
       | Some z => if Z.leb z (Z.of_nat (length xs)) then Some (Z.to_nat z) else None
       | None => None
       end.

(* apply f to the child named by token t, put the result back *)
Definition on_child (d : json) (t : ustr) (f : json -> option json) : option json :=
  match d with
  | JObj ms =>
      match lookup t ms with
      | Some c => option_map (fun c' => JObj (member_set ms t c')) (f c)
      | None => None
      end
  | JArr xs =>
      match elem_index xs t with
      | Some i =>
          match nth_opt xs i with
          | Some c => match f c with
                      | Some c' => option_map JArr (elem_replace xs i c')
                      | None => None
                      end
          | None => None
          end
      | None => None
      end
  | _ => None
  end.

(* 4.1 add *)
Fixpoint rfc_add (path : list ustr) (v : json) (d : json) : option json :=
  match path with
  | [] => Some v
  | [t] =>
      match d with
      | JObj ms => Some (JObj (member_set ms t v))
      | JArr xs => match insert_index xs t with
                   | Some i => option_map JArr (elem_insert xs i v)
                   | None => None
                   end
      | _ => None
      end
  | t :: rest => on_child d t (rfc_add rest v)
  end.

(* 4.2 remove *)
Fixpoint rfc_remove (path : list ustr) (d : json) : option json :=
  match path with
  | [] => None                       (* there is no member or element to remove *)
  | [t] =>
      match d with
      | JObj ms => option_map JObj (member_remove ms t)
      | JArr xs => match elem_index xs t with
                   | Some i => option_map JArr (elem_remove xs i)
                   | None => None
                   end
      | _ => None
      end
  | t :: rest => on_child d t (rfc_remove rest)
  end.

(* 4.3 replace *)
Fixpoint rfc_replace (path : list ustr) (v : json) (d : json) : option json :=
  match path with
  | [] => Some v
  | [t] =>
      match d with
      | JObj ms => match lookup t ms with Some _ => Some (JObj (member_set ms t v)) | None => None end
      | JArr xs => match elem_index xs t with
                   | Some i => option_map JArr (elem_replace xs i v)
                   | None => None
                   end
      | _ => None
      end
  | t :: rest => on_child d t (rfc_replace rest v)
  end.

Definition rfc_get (path : list ustr) (d : json) : option json :=
  option_map snd (rfc_eval path d).

Fixpoint proper_prefix (a b : list ustr) : bool :=
  match a, b with
  | [], _ :: _ => true
  | x :: a', y :: b' => ustr_eqb x y && proper_prefix a' b'
  | _, _ => false
  end.

Inductive outcome := OOk (d : json) | OError | OTestFailed.

Definition of_option (o : option json) : outcome :=
  match o with Some d => OOk d | None => OError end.

Definition rfc_op (o : rop) (d : json) : outcome :=
  match o with
  | RAdd p v => of_option (rfc_add p v d)
  | RRemove p => of_option (rfc_remove p d)
  | RReplace p v => of_option (rfc_replace p v d)
  | RMove f p =>
      if proper_prefix f p then OError
      else match rfc_get f d with
           | Some v => match rfc_remove f d with
                       | Some d' => of_option (rfc_add p v d')
                       | None => match f with [] => of_option (rfc_add p v d) | _ => OError end
                       end
           | None => OError
           end
  | RCopy f p =>
      match rfc_get f d with
      | Some v => of_option (rfc_add p v d)
      | None => OError
      end
  | RTest p v =>
      match rfc_get p d with
      | Some x => if json_eq x v then OOk d else OTestFailed
      | None => OError           (* the target location must exist *)
      end
  end.

(* section 3 / 5: in order; the first failure terminates the patch *)
Fixpoint rfc_apply (ops : list rop) (d : json) : outcome :=
  match ops with
  | [] => OOk d
  | o :: ops' =>
      match rfc_op o d with
      | OOk d' => rfc_apply ops' d'
      | e => e
      end
  end.
