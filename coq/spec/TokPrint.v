(* TokPrint.v — the token sequence of the string form of a compiled query: what the lexer is
   expected to deliver for Serialize.query_text (same constructs in the same order, minimal
   parentheses as _canonical_string places them).  Specification-side bridge between the
   printer (model/Serialize.v), the lexer (model/Lex.v) and the parser (model/Parse.v):
     tokenize (query_text q) = toks q          (lexer lemma / correspondence)
     compile_tokens (toks q)  = Ok (norm q)    (parser theorem)                              *)
From JP Require Import Base Json PyStr PyJsonStr Syntax Lex Parse Serialize.

Definition tk1 (k : tkind) (v : ustr) : list token := [mkTok k v].

(* the body of canonical_string: the text between the single quotes *)
Definition canonical_body (s : ustr) : ustr :=
  replace1 39%N [92; 39]%N (replace2 92%N 34%N [34%N] (dumps_body s)).

Definition op_token (o : binop) : token :=
  match o with
  | BAnd => mkTok TAnd [38; 38] | BOr => mkTok TOr [124; 124] | BEq => mkTok TEq [61; 61]
  | BNe => mkTok TNe [33; 61] | BLg => mkTok TLg [60; 62] | BLt => mkTok TLt [60] | BGt => mkTok TGt [62]
  | BLe => mkTok TLe [60; 61] | BGe => mkTok TGe [62; 61] | BIn => mkTok TIn [105; 110]
  | BContains => mkTok TContains [99; 111; 110; 116; 97; 105; 110; 115] | BRe => mkTok TRe [61; 126]
  end%N.

Definition opt_text (o : option Z) : ustr := match o with Some z => str_of_Z z | None => [] end.

Fixpoint sep_by {A} (sep : list A) (l : list (list A)) : list A :=
  match l with
  | [] => []
  | [x] => x
  | x :: r => x ++ sep ++ sep_by sep r
  end.

Definition wrap_toks (e : fexpr) (x : list token) : list token :=
  match e with
  | FInfix _ o _ => if is_logical o then x else mkTok TLParen [40%N] :: x ++ [mkTok TRParen [41%N]]
  | _ => x
  end.

Section TokPrint.
  Variable E : env.

  Definition lparen := mkTok TLParen [40%N].
  Definition rparen := mkTok TRParen [41%N].
  Definition comma := mkTok TComma [44%N].

  Fixpoint expr_toks (e : fexpr) {struct e} : result (list token) :=
    match e with
    | FNil => Ok (tk1 TNil [110; 105; 108]%N)
    | FUndefined => Ok (tk1 TUndefined [117; 110; 100; 101; 102; 105; 110; 101; 100]%N)
    | FBool true => Ok (tk1 TTrue [116; 114; 117; 101]%N)
    | FBool false => Ok (tk1 TFalse [102; 97; 108; 115; 101]%N)
    | FInt z => Ok (tk1 TInt (str_of_Z z))
    | FFloat n => t <- float_repr n ;; Ok (tk1 TFloat t)
    | FStr s => Ok (tk1 TSQ (canonical_body s))
    | FRegex p fl => Ok [mkTok TRePattern p; mkTok TReFlags (flags_text fl)]
    | FList items => xs <- exprs_toks items ;; Ok (mkTok TLBracket [91%N] :: sep_by [comma] xs ++ [mkTok TRBracket [93%N]])
    | FNot r => x <- expr_toks r ;; Ok (mkTok TNot [33%N] :: wrap_toks r x)
    | FInfix l o r =>
        a <- expr_toks l ;; b <- expr_toks r ;;
        Ok (if is_logical o then lparen :: (a ++ op_token o :: b) ++ [rparen]
            else wrap_toks l a ++ op_token o :: wrap_toks r b)
    | FSelf p => x <- segs_toks p ;; Ok (mkTok TSelf (e_self E) :: x)
    | FRoot fake p => x <- segs_toks p ;; Ok ((if fake then mkTok TFakeRoot (e_fake_root E) else mkTok TRoot (e_root E)) :: x)
    | FCtx p => x <- segs_toks p ;; Ok (mkTok TFilterCtx (e_filter_context E) :: x)
    | FKey => Ok (tk1 TKey (e_key E))
    | FFunc name args => xs <- exprs_toks args ;; Ok (mkTok TFunction name :: sep_by [comma] xs ++ [rparen])
    end
  with exprs_toks (es : fexprs) {struct es} : result (list (list token)) :=
    match es with
    | ENil => Ok []
    | ECons e r => x <- expr_toks e ;; xs <- exprs_toks r ;; Ok (x :: xs)
    end
  with canon_toks (e : fexpr) (parent : nat) {struct e} : result (list token) :=
    match e with
    | FInfix l BAnd r =>
        a <- canon_toks l 4 ;; b <- canon_toks r 4 ;;
        let x := a ++ op_token BAnd :: b in
        Ok (if Nat.leb 4 parent then lparen :: x ++ [rparen] else x)
    | FInfix l BOr r =>
        a <- canon_toks l 3 ;; b <- canon_toks r 3 ;;
        let x := a ++ op_token BOr :: b in
        Ok (if Nat.leb 3 parent then lparen :: x ++ [rparen] else x)
    | FNot r =>
        a <- canon_toks r 7 ;;
        let x := mkTok TNot [33%N] :: a in
        Ok (if Nat.ltb 7 parent then lparen :: x ++ [rparen] else x)
    | FInfix l o r =>
        a <- expr_toks l ;; b <- expr_toks r ;;
        let x := wrap_toks l a ++ op_token o :: wrap_toks r b in
        Ok (if Nat.leb 7 parent then lparen :: x ++ [rparen] else x)
    | FNil => Ok (tk1 TNil [110; 105; 108]%N)
    | FUndefined => Ok (tk1 TUndefined [117; 110; 100; 101; 102; 105; 110; 101; 100]%N)
    | FBool true => Ok (tk1 TTrue [116; 114; 117; 101]%N)
    | FBool false => Ok (tk1 TFalse [102; 97; 108; 115; 101]%N)
    | FInt z => Ok (tk1 TInt (str_of_Z z))
    | FFloat n => t <- float_repr n ;; Ok (tk1 TFloat t)
    | FStr s => Ok (tk1 TSQ (canonical_body s))
    | FRegex p fl => Ok [mkTok TRePattern p; mkTok TReFlags (flags_text fl)]
    | FList items => xs <- exprs_toks items ;; Ok (mkTok TLBracket [91%N] :: sep_by [comma] xs ++ [mkTok TRBracket [93%N]])
    | FSelf p => x <- segs_toks p ;; Ok (mkTok TSelf (e_self E) :: x)
    | FRoot fake p => x <- segs_toks p ;; Ok ((if fake then mkTok TFakeRoot (e_fake_root E) else mkTok TRoot (e_root E)) :: x)
    | FCtx p => x <- segs_toks p ;; Ok (mkTok TFilterCtx (e_filter_context E) :: x)
    | FKey => Ok (tk1 TKey (e_key E))
    | FFunc name args => xs <- exprs_toks args ;; Ok (mkTok TFunction name :: sep_by [comma] xs ++ [rparen])
    end
  with sel_toks (s : selector) {struct s} : result (list token) :=
    match s with
    | SName k => Ok (tk1 TSQ (canonical_body k))
    | SIndex i => Ok (tk1 TInt (str_of_Z i))
    | SSlice a b c =>
        Ok [mkTok TSliceStart (opt_text a); mkTok TSliceStop (opt_text b);
            mkTok TSliceStep (match c with Some z => str_of_Z z | None => [49%N] end)]
    | SWild => Ok (tk1 TWild [42%N])
    | SKeys => Ok (tk1 TKeys (e_keys E))
    | SFilter e => x <- canon_toks e 1 ;; Ok (mkTok TFilter [63%N] :: x)
    end
  with sels_toks (l : sels) {struct l} : result (list (list token)) :=
    match l with
    | LNil => Ok []
    | LCons s r => x <- sel_toks s ;; xs <- sels_toks r ;; Ok (x :: xs)
    end
  with seg_toks (g : segment) {struct g} : result (list token) :=
    let br (x : list token) := mkTok TLBracket [91%N] :: x ++ [mkTok TRBracket [93%N]] in
    match g with
    | GSel (SName k) => Ok (br (tk1 TSQ (canonical_body k)))
    | GSel SWild => Ok (br (tk1 TWild [42%N]))
    | GSel SKeys => Ok (br (tk1 TKeys (e_keys E)))
    | GSel ((SSlice _ _ _) as s) => x <- sel_toks s ;; Ok (br x)
    | GSel s => sel_toks s
    | GDescent => Ok (tk1 TDDot [46; 46]%N)
    | GList items => xs <- sels_toks items ;; Ok (br (sep_by [comma] xs))
    end
  with segs_toks (p : segs) {struct p} : result (list token) :=
    match p with
    | PNil => Ok []
    | PCons g r => x <- seg_toks g ;; xs <- segs_toks r ;; Ok (x ++ xs)
    end.

  Definition path_toks (p : jpath) : result (list token) :=
    x <- segs_toks (p_segs p) ;;
    Ok ((if p_fake p then mkTok TFakeRoot (e_fake_root E) else mkTok TRoot (e_root E)) :: x).

  Fixpoint rest_toks (rest : list (setop * jpath)) : result (list token) :=
    match rest with
    | [] => Ok []
    | (o, p) :: rest' =>
        x <- path_toks p ;; xs <- rest_toks rest' ;;
        Ok ((match o with OpUnion => mkTok TUnion (e_union E) | OpIntersect => mkTok TIntersect (e_intersection E) end) :: x ++ xs)
    end.

  Definition query_toks (q : query) : result (list token) :=
    x <- path_toks (q_first q) ;; xs <- rest_toks (q_rest q) ;; Ok (x ++ xs).
End TokPrint.

(* what reparsing the string form yields: a selector that stood alone at path level (.name .* .~)
   is printed in brackets and comes back as a one-element list *)
Fixpoint norm_expr (e : fexpr) : fexpr :=
  match e with
  | FList items => FList (norm_exprs items)
  | FNot r => FNot (norm_expr r)
  | FInfix l o r => FInfix (norm_expr l) o (norm_expr r)
  | FSelf p => FSelf (norm_segs p)
  | FRoot f p => FRoot f (norm_segs p)
  | FCtx p => FCtx (norm_segs p)
  | FFunc n args => FFunc n (norm_exprs args)
  | FFloat n =>                                        (* the float reread from its repr (1.50 -> 1.5) *)
      match float_repr n with
      | Ok t => match parse_float_literal t with Ok e' => e' | Err _ => e end
      | Err _ => e
      end
  | _ => e
  end
with norm_exprs (es : fexprs) : fexprs :=
  match es with ENil => ENil | ECons e r => ECons (norm_expr e) (norm_exprs r) end
with norm_sel (s : selector) : selector :=
  match s with
  | SFilter e => SFilter (norm_expr e)
  | SSlice a b None => SSlice a b (Some 1%Z)          (* an omitted step is printed as 1 *)
  | _ => s
  end
with norm_sels (l : sels) : sels :=
  match l with LNil => LNil | LCons s r => LCons (norm_sel s) (norm_sels r) end
with norm_seg (g : segment) : segment :=
  match g with
  | GSel s => GList (LCons (norm_sel s) LNil)
  | GDescent => GDescent
  | GList items => GList (norm_sels items)
  end
with norm_segs (p : segs) : segs :=
  match p with PNil => PNil | PCons g r => PCons (norm_seg g) (norm_segs r) end.

Definition norm_path (p : jpath) : jpath := mkPath (p_fake p) (norm_segs (p_segs p)).
Definition norm_query (q : query) : query :=
  mkQuery (norm_path (q_first q)) (map (fun op => (fst op, norm_path (snd op))) (q_rest q)).
