(* Printable.v — the compiled queries for which the print/reparse theorems are stated: the
   invariants Parser.parse establishes that the printer relies on (beyond the typing gate). *)
From JP Require Import Base Json PyStr PyJsonStr Syntax Lex Parse Serialize.

Definition is_lit (e : fexpr) : bool :=
  match e with FNil | FBool _ | FInt _ | FFloat _ | FStr _ => true | _ => false end.

(* a function name as the lexer reads it: [a-z][a-z_0-9]+ *)
Definition fname_ok (s : ustr) : bool :=
  match s with
  | c :: (_ :: _) as r => is_lower c && forallb fn_rest r
  | _ => false
  end.

(* a regex literal as the lexer reads it: at least one character, no '/' after the first *)
Definition regex_ok (p : ustr) : bool :=
  match p with _ :: r => negb (contains_ch 47 r) | [] => false end.

Definition float_ok (n : num) : bool :=
  match float_repr n with
  | Ok t => match parse_float_literal t with Ok _ => true | Err _ => false end
  | Err _ => false
  end.

Section Printable.
  Variable re_ok : ustr -> option bool.

  Fixpoint pr_expr (e : fexpr) : bool :=
    match e with
    | FFloat n => float_ok n
    | FRegex p _ => regex_ok p && match re_ok p with Some true => true | _ => false end
    | FList items => pr_lits items
    | FNot r => pr_expr r
    | FInfix l _ r => pr_expr l && pr_expr r
    | FSelf p | FRoot _ p | FCtx p => pr_segs p
    | FFunc name args => fname_ok name && pr_exprs args
    | _ => true
    end
  with pr_exprs (es : fexprs) : bool :=
    match es with ENil => true | ECons e r => pr_expr e && pr_exprs r end
  with pr_lits (es : fexprs) : bool :=
    match es with ENil => true | ECons e r => is_lit e && pr_expr e && pr_lits r end
  with pr_sel (s : selector) : bool :=
    match s with SFilter e => pr_expr e | _ => true end
  with pr_sels (l : sels) : bool :=
    match l with LNil => true | LCons s r => pr_sel s && pr_sels r end
  with pr_seg (g : segment) : bool :=
    match g with GSel s => pr_sel s | GDescent => true | GList items => pr_sels items end
  with pr_segs (p : segs) : bool :=
    match p with PNil => true | PCons g r => pr_seg g && pr_segs r end.

  Definition printable (q : query) : bool :=
    pr_segs (p_segs (q_first q)) && forallb (fun op => pr_segs (p_segs (snd op))) (q_rest q).
End Printable.

(* the environment spells its eight identifiers as the defaults do (C10 is about the default
   environment; C17 generalises) *)
Definition default_tokens (E : env) : Prop :=
  e_root E = [36%N] /\ e_fake_root E = [94%N] /\ e_self E = [64%N] /\ e_key E = [35%N] /\
  e_union E = [124%N] /\ e_intersection E = [38%N] /\ e_filter_context E = [95%N] /\ e_keys E = [126%N].
