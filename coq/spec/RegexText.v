(* RegexText.v — the pattern text of the dialect of rt/Regex.v: a concrete syntax tree, its printer
   and its meaning as a regular expression of rt/Regex.v.  Definitions only.

     alt   := seq ('|' seq)*
     seq   := (atom quant?)*                      quant := '*' | '+' | '?'
     atom  := c | '\' c | '.' | '[' '^'? item+ ']' | '(' alt ')' | '(?:' alt ')'
     item  := c | '\' c | c '-' c

   [valid_*] says which characters may be written raw and which escaped (an escaped character is never
   an ASCII letter or digit: \d \w \n \1 ... are outside the dialect).  Inside a class a raw "^" may
   not come first, and an item that begins with a raw "-" may come first, or after a range, or be the
   single character "-" at the very end ([-a], [a-z-9], [a-]); a range may begin with an escaped
   character ([\.-z]) but ends with a raw one. *)
From Coq Require Import NArith List Bool.
From JP Require Import Base PyStr Regex RegexSem.
Import ListNotations.
Local Open Scope N_scope.

Inductive quant := Q1 | QStar | QPlus | QOpt.

Inductive citem :=
| CChar (c : N) (escaped : bool)
| CRange (lo : N) (lo_escaped : bool) (hi : N).

Inductive ralt :=
| Alt1 (s : rseq)
| AltCons (s : rseq) (r : ralt)
with rseq :=
| SNil
| SCons (a : ratom) (q : quant) (r : rseq)
with ratom :=
| AChar (c : N) (escaped : bool)
| ADot
| AClass (neg : bool) (items : list citem)
| AGroup (capture : bool) (body : ralt).

(* ---- which spellings are in the dialect ---- *)

Definition one_of (c : N) (l : list N) : bool := existsb (N.eqb c) l.

(* outside a class:  | ) ( [ . \ * + ? ^ $ { }  are not literal characters *)
Definition raw_ok (c : N) : bool := negb (one_of c [124; 41; 40; 91; 46; 92; 42; 43; 63; 94; 36; 123; 125]).
(* inside a class:  ] \ [  are written escaped; a range does not end in ] or \ *)
Definition class_raw_ok (c : N) : bool := negb (one_of c [93; 92; 91]).
Definition class_hi_ok (c : N) : bool := negb (one_of c [93; 92]).
Definition esc_ok (c : N) : bool := negb (is_alnum c).

Definition valid_item (i : citem) : bool :=
  match i with
  | CChar c true => esc_ok c
  | CChar c false => class_raw_ok c
  | CRange lo e hi => (if e then esc_ok lo else class_raw_ok lo) && class_hi_ok hi && (lo <=? hi)
  end.

(* the first character of the item's text, when it is written raw *)
Definition raw_start (i : citem) : option N :=
  match i with
  | CChar c false => Some c
  | CRange lo false _ => Some lo
  | _ => None
  end.
Definition starts_with (d : N) (i : citem) : bool :=
  match raw_start i with Some c => N.eqb c d | None => false end.
Definition is_single (i : citem) : bool := match i with CChar _ _ => true | CRange _ _ _ => false end.

(* [after_single]: the previous item is a single character, which a following "-x" would turn into a
   range; there only the final "-" may follow *)
Fixpoint valid_items (after_single : bool) (items : list citem) : bool :=
  match items with
  | [] => true
  | i :: r =>
      valid_item i &&
      (if starts_with 45 i && after_single
       then match i, r with CChar _ _, [] => true | _, _ => false end
       else true) &&
      valid_items (is_single i) r
  end.

Definition valid_class (neg : bool) (items : list citem) : bool :=
  match items with
  | [] => false
  | i :: _ => (neg || negb (starts_with 94 i)) && valid_items false items
  end.

Fixpoint valid_alt (x : ralt) : bool :=
  match x with
  | Alt1 s => valid_seq s
  | AltCons s r => valid_seq s && valid_alt r
  end
with valid_seq (x : rseq) : bool :=
  match x with
  | SNil => true
  | SCons a _ r => valid_atom a && valid_seq r
  end
with valid_atom (x : ratom) : bool :=
  match x with
  | AChar c true => esc_ok c
  | AChar c false => raw_ok c
  | ADot => true
  | AClass neg items => valid_class neg items
  | AGroup _ b => valid_alt b
  end.

(* ---- the printer ---- *)

Definition char_text (c : N) (escaped : bool) : ustr := if escaped then [92; c] else [c].

Definition item_text (i : citem) : ustr :=
  match i with
  | CChar c e => char_text c e
  | CRange lo e hi => char_text lo e ++ [45; hi]
  end.

Definition quant_text (q : quant) : ustr :=
  match q with Q1 => [] | QStar => [42] | QPlus => [43] | QOpt => [63] end.

Fixpoint alt_text (x : ralt) : ustr :=
  match x with
  | Alt1 s => seq_text s
  | AltCons s r => seq_text s ++ 124 :: alt_text r
  end
with seq_text (x : rseq) : ustr :=
  match x with
  | SNil => []
  | SCons a q r => atom_text a ++ quant_text q ++ seq_text r
  end
with atom_text (x : ratom) : ustr :=
  match x with
  | AChar c e => char_text c e
  | ADot => [46]
  | AClass neg items => 91 :: (if neg then [94] else []) ++ flat_map item_text items ++ [93]
  | AGroup cap b => 40 :: (if cap then [] else [63; 58]) ++ alt_text b ++ [41]
  end.

Definition regex_text : ralt -> ustr := alt_text.

(* ---- the meaning ---- *)

Definition item_range (i : citem) : N * N :=
  match i with CChar c _ => (c, c) | CRange lo _ hi => (lo, hi) end.

Definition quant_re (q : quant) (r : re) : re :=
  match q with Q1 => r | QStar => RStar r | QPlus => re_plus r | QOpt => re_opt r end.

Section Denot.
  Variable dotall : bool.

  Fixpoint alt_re (x : ralt) : re :=
    match x with
    | Alt1 s => seq_re s
    | AltCons s r => RAlt (seq_re s) (alt_re r)
    end
  with seq_re (x : rseq) : re :=
    match x with
    | SNil => REps
    | SCons a q r => RSeq (quant_re q (atom_re a)) (seq_re r)
    end
  with atom_re (x : ratom) : re :=
    match x with
    | AChar c _ => re_char c
    | ADot => any_char dotall
    | AClass neg items => RSet neg (map item_range items)
    | AGroup _ b => alt_re b
    end.
End Denot.
