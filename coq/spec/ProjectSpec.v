(* ProjectSpec.v — what property C19 demands of a projection, by structural recursion on the
   matched value.  [sels] are the relative locations of the selected nodes (non-empty,
   pairwise non-nested).  The projected value keeps, for every selected node, its value at
   its location with each array index replaced by its rank among the indices kept in that
   array, and contains no other leaves.  No reference to the implementation model. *)
From JP Require Import Base Json.

Definition tails_under (p : part) (sels : list loc) : list loc :=
  flat_map (fun l => match l with
                     | q :: rest => if part_eqb p q then [rest] else []
                     | [] => []
                     end) sels.

Definition selected_here (sels : list loc) : bool :=
  existsb (fun l => match l with [] => true | _ => false end) sels.

Fixpoint project_tree (v : json) (sels : list loc) {struct v} : option json :=
  if selected_here sels then Some v
  else
    match v with
    | JObj ms =>
        let kept :=
          (fix go (ms : list (ustr * json)) : list (ustr * json) :=
             match ms with
             | [] => []
             | (k, c) :: ms' =>
                 match tails_under (PKey k) sels with
                 | [] => go ms'
                 | sub => match project_tree c sub with
                          | Some c' => (k, c') :: go ms'
                          | None => go ms'
                          end
                 end
             end) ms in
        match kept with [] => None | _ => Some (JObj kept) end
    | JArr xs =>
        let kept :=
          (fix go (xs : list json) (i : nat) : list json :=
             match xs with
             | [] => []
             | c :: xs' =>
                 match tails_under (PIdx i) sels with
                 | [] => go xs' (S i)
                 | sub => match project_tree c sub with
                          | Some c' => c' :: go xs' (S i)
                          | None => go xs' (S i)
                          end
                 end
             end) xs 0 in
        match kept with [] => None | _ => Some (JArr kept) end
    | _ => None
    end.

(* the domain of the clause: selections are locations strictly below the match, pairwise
   distinct and non-nested; within every array they arrive in ascending index order *)
Fixpoint is_prefix_loc (a b : loc) : bool :=
  match a, b with
  | [], _ => true
  | x :: a', y :: b' => part_eqb x y && is_prefix_loc a' b'
  | _ :: _, [] => false
  end.

Fixpoint non_nested (sels : list loc) : bool :=
  match sels with
  | [] => true
  | l :: rest => forallb (fun l' => negb (is_prefix_loc l l') && negb (is_prefix_loc l' l)) rest && non_nested rest
  end.

(* ascending: whenever two selections first differ at array indices, the earlier has the smaller index *)
Fixpoint first_diff_ascending (a b : loc) : bool :=
  match a, b with
  | PIdx i :: a', PIdx j :: b' => if Nat.eqb i j then first_diff_ascending a' b' else Nat.ltb i j
  | PKey k :: a', PKey k' :: b' => if ustr_eqb k k' then first_diff_ascending a' b' else true
  | _, _ => true
  end.

Fixpoint ascending (sels : list loc) : bool :=
  match sels with
  | [] => true
  | l :: rest => forallb (first_diff_ascending l) rest && ascending rest
  end.

Definition selections_ok (sels : list loc) : bool :=
  forallb (fun l => match l with [] => false | _ => true end) sels && non_nested sels && ascending sels.

(* a wider domain, used only by the search for failing inputs (the theorems are stated for
   [selections_ok]): selections that pass through no array index, nested and repeated ones
   included.  No rank is involved, so "every selected node's value is found at its location and
   there are no other leaves" has one reading, which [project_tree] computes. *)
Definition keys_only (sels : list loc) : bool :=
  forallb (fun l => match l with
                    | [] => false
                    | _ => forallb (fun p => match p with PKey _ => true | PIdx _ => false end) l
                    end) sels.

(* the widest domain the theorems cover (proofs/ProjectNested.v): selections in any order, repeated or
   nested in one another, provided that below an already selected node only member names follow
   (and array indices arrive ascending) *)
Definition all_keys (l : loc) : bool := forallb (fun p => match p with PKey _ => true | PIdx _ => false end) l.

Fixpoint rem_prefix (a b : loc) : option loc :=
  match a, b with
  | [], _ => Some b
  | x :: a', y :: b' => if part_eqb x y then rem_prefix a' b' else None
  | _ :: _, [] => None
  end.

Definition nested_keys (ls : list loc) : bool :=
  forallb (fun a => forallb (fun b => match rem_prefix a b with Some t => all_keys t | None => true end) ls) ls.


Definition selections_deep_ok (sels : list loc) : bool :=
  forallb (fun l => match l with [] => false | _ => true end) sels && nested_keys sels && ascending sels.


(* flat projection: the selected values in selection order *)
Definition project_flat (vals : list json) : option json :=
  match vals with [] => None | _ => Some (JArr vals) end.

(* root projection: the same tree, located from the document root *)
Definition project_root (d : json) (at_ : loc) (sels : list loc) : option json :=
  project_tree d (map (fun l => at_ ++ l) sels).
