(* Rfc6901.v — RFC 6901 transcribed (Appendix B of DESIGN.md), on reference
   tokens that are plain strings.  No reference to the implementation model. *)
From JP Require Import Base Json PyStr.

(* Section 3: json-pointer = *( "/" reference-token ); "~" only as ~0 or ~1 *)
Fixpoint tilde_ok (s : ustr) : bool :=
  match s with
  | [] => true
  | c :: s' =>
      if N.eqb c ch_tilde
      then match s' with
           | d :: s'' => (N.eqb d ch_0 || N.eqb d ch_1) && tilde_ok s''
           | [] => false
           end
      else tilde_ok s'
  end.

Definition rfc6901_syntax (s : ustr) : bool :=
  match s with
  | [] => true
  | c :: _ => N.eqb c ch_slash && tilde_ok s
  end.

(* Section 4: "~1" then "~0" *)
Fixpoint unescape (t : ustr) : ustr :=
  match t with
  | c :: ((d :: t'') as t') =>
      if N.eqb c ch_tilde && N.eqb d ch_1 then ch_slash :: unescape t''
      else if N.eqb c ch_tilde && N.eqb d ch_0 then ch_tilde :: unescape t''
      else c :: unescape t'
  | _ => t
  end.

Fixpoint escape (t : ustr) : ustr :=
  match t with
  | [] => []
  | c :: t' =>
      if N.eqb c ch_tilde then ch_tilde :: ch_0 :: escape t'
      else if N.eqb c ch_slash then ch_tilde :: ch_1 :: escape t'
      else c :: escape t'
  end.

(* the reference tokens of a syntactically valid pointer *)
Definition rfc_tokens (s : ustr) : list ustr :=
  match s with
  | [] => []
  | _ => map unescape (tl (split_on ch_slash s))
  end.

(* the RFC 6901 spelling of a token list *)
Fixpoint rfc_spell (ts : list ustr) : ustr :=
  match ts with
  | [] => []
  | t :: ts' => ch_slash :: escape t ++ rfc_spell ts'
  end.

(* array index syntax: "0" / digits without a leading zero *)
Definition array_index (t : ustr) : option Z :=
  if canonical_nonneg t then Some (dec_value t) else None.

(* Section 4 evaluation, one token *)
Definition rfc_step (v : json) (t : ustr) : option (part * json) :=
  match v with
  | JObj members => match lookup t members with Some c => Some (PKey t, c) | None => None end
  | JArr items =>
      match array_index t with
      | Some z =>
          if Z.ltb z (Z.of_nat (length items))
          then match nth_opt items (Z.to_nat z) with Some c => Some (PIdx (Z.to_nat z), c) | None => None end
          else None
      | None => None                (* "-" and everything else: error when resolving *)
      end
  | _ => None
  end.

Fixpoint rfc_eval_from (l : loc) (v : json) (ts : list ustr) : option (loc * json) :=
  match ts with
  | [] => Some (l, v)
  | t :: ts' =>
      match rfc_step v t with
      | Some (p, c) => rfc_eval_from (l ++ [p]) c ts'
      | None => None
      end
  end.

Definition rfc_eval (ts : list ustr) (d : json) : option (loc * json) := rfc_eval_from [] d ts.

(* the token that spells a location part *)
Definition part_token (p : part) : ustr :=
  match p with PKey k => k | PIdx i => str_of_Z (Z.of_nat i) end.

Definition spell_loc (l : loc) : ustr := rfc_spell (map part_token l).
