(* TokenAlias.v — token sequences that differ only in token VALUES the parser does not
   distinguish (definitions only).  Two tokens are aliases when they have the same kind
   (`undefined` and `missing` count as one kind) and
     - for kinds whose value the parser never reads (operators `&&`/`and`, `||`/`or`, `!`/`not`,
       `true`/`True`, `nil`/`null`/`None`..., brackets, identifiers, ...): nothing more;
     - quoted strings, names, function names, regular-expression patterns: the same value;
     - regular-expression flags: the same set of flags;
     - INT tokens: the same reading as a literal (`1e2` ~ `100`) and as a bracketed index;
     - FLOAT tokens: the same reading (`1.50` ~ `1.5`);
     - slice start / stop: the same bound; slice step: the same bound, an omitted step counting
       as 1. *)
From JP Require Import Base Json PyStr PyJsonStr Syntax Lex Parse.

(* `undefined` and `missing` are read alike *)
Definition kcls (k : tkind) : tkind := match k with TMissing => TUndefined | x => x end.

(* a bracketed index: Parser.parse_selector_list on an INT token *)
Definition int_index_text (v : ustr) : result Z :=
  if (Nat.ltb 1 (length v) && starts_with_ch 48 v) || starts_with [45; 48]%N v then syntax_error
  else if has_exponent v then syntax_error
  else int_of_text v.

(* a slice bound: Parser.parse_slice on one of the three slice tokens *)
Definition slice_bound (v : ustr) : result (option Z) :=
  match v with [] => Ok None | txt => z <- int_of_text txt ;; Ok (Some z) end.

Definition step_norm (o : option Z) : option Z := match o with None => Some 1%Z | x => x end.

Definition val_alias (k : tkind) (v v' : ustr) : Prop :=
  match k with
  | TSQ | TDQ | TProperty | TBare | TFunction | TRePattern => v = v'
  | TReFlags => flags_of v = flags_of v'
  | TInt => parse_int_literal v = parse_int_literal v' /\ int_index_text v = int_index_text v'
  | TFloat => parse_float_literal v = parse_float_literal v'
  | TSliceStart | TSliceStop => slice_bound v = slice_bound v'
  | TSliceStep =>
      match slice_bound v, slice_bound v' with
      | Ok a, Ok b => step_norm a = step_norm b
      | Err e, Err e' => e = e'
      | _, _ => False
      end
  | _ => True
  end.

Definition tok_alias (t t' : token) : Prop :=
  kcls (tk t) = kcls (tk t') /\ val_alias (tk t) (tv t) (tv t').

Definition alias (ts ts' : list token) : Prop := Forall2 tok_alias ts ts'.
