(* PointerDomain.v — the boolean guards that delimit the clauses of C04 / C14 / C16:
   which pointers are "outside the documented extensions", free of backslashes,
   and within the integer limits.  Part of the specification side. *)
From JP Require Import Base Json PyStr Rfc6901.

Definition spec_max_index : Z := 9007199254740991.

Definition no_backslash (s : ustr) : bool := negb (contains_ch ch_backslash s).

(* a token that looks like an integer to the library: optional '-', canonical digits *)
Definition int_like_token (t : ustr) : bool := re_index_match t.

Definition token_within_limits (t : ustr) : bool :=
  if int_like_token t then Z.leb (Z.abs (int_of_index_text t)) spec_max_index else true.

(* tokens that trigger a documented extension: negative integers, '#'/'~'-prefixed tokens,
   integers beyond the limit *)
Definition token_outside_extensions (t : ustr) : bool :=
  negb (starts_with_ch ch_hash t) && negb (starts_with_ch ch_tilde t) &&
  negb (int_like_token t && starts_with_ch ch_minus t) &&
  token_within_limits t.

Definition outside_extensions (ts : list ustr) : bool := forallb token_outside_extensions ts.

Definition tokens_within_limits (ts : list ustr) : bool := forallb token_within_limits ts.

Definition no_leading_blank (s : ustr) : bool :=
  match s with c :: _ => negb (py_isspace c) | [] => true end.

(* add / addne / addap never resolve their last reference token (it is used literally as the
   member name, or as "-"/index, in the parent found by resolving the others): only the tokens
   leading to the parent need to be outside the extensions *)
Definition parent_outside_extensions (ts : list ustr) : bool := outside_extensions (removelast ts).
