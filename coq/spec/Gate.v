(* Gate.v — what property C07 says a compiled query must satisfy (the compile-time gate), as
   boolean predicates on the compiled form, and the "documented error family" predicates of C06.
   Specification side; written from the RFC 9535 typing rules (2.4.3) and the property text. *)
From JP Require Import Base Json PyStr Syntax.

Inductive gtype := GValue | GLogical | GNodes.

Definition gname (l : list N) : ustr := l.
(* the registered functions and their declared signatures (RFC 9535 2.4.4-2.4.8 for the five
   standard ones; isinstance/is/typeof/type are the library's documented extras) *)
Definition gate_sig (name : ustr) : option (list gtype * gtype) :=
  if ustr_eqb name (gname [108; 101; 110; 103; 116; 104]%N) then Some ([GValue], GValue)
  else if ustr_eqb name (gname [99; 111; 117; 110; 116]%N) then Some ([GNodes], GValue)
  else if ustr_eqb name (gname [118; 97; 108; 117; 101]%N) then Some ([GNodes], GValue)
  else if ustr_eqb name (gname [109; 97; 116; 99; 104]%N) then Some ([GValue; GValue], GLogical)
  else if ustr_eqb name (gname [115; 101; 97; 114; 99; 104]%N) then Some ([GValue; GValue], GLogical)
  else if ustr_eqb name (gname [105; 115; 105; 110; 115; 116; 97; 110; 99; 101]%N) then Some ([GNodes; GValue], GLogical)
  else if ustr_eqb name (gname [105; 115]%N) then Some ([GNodes; GValue], GLogical)
  else if ustr_eqb name (gname [116; 121; 112; 101; 111; 102]%N) then Some ([GNodes], GValue)
  else if ustr_eqb name (gname [116; 121; 112; 101]%N) then Some ([GNodes], GValue)
  else None.

Fixpoint g_singular (p : segs) : bool :=
  match p with
  | PNil => true
  | PCons (GSel (SName _)) r | PCons (GSel (SIndex _)) r => g_singular r
  | PCons (GList (LCons (SName _) LNil)) r | PCons (GList (LCons (SIndex _) LNil)) r => g_singular r
  | _ => false
  end.

Definition g_is_query (e : fexpr) : bool := match e with FSelf _ | FRoot _ _ | FCtx _ => true | _ => false end.
Definition g_query_segs (e : fexpr) : segs := match e with FSelf p | FRoot _ p | FCtx p => p | _ => PNil end.
Definition g_returns (e : fexpr) : option gtype :=
  match e with FFunc name _ => option_map snd (gate_sig name) | _ => None end.
Definition g_is_literal (e : fexpr) : bool :=
  match e with FNil | FBool _ | FInt _ | FFloat _ | FStr _ | FRegex _ _ => true | _ => false end.

(* a comparison operand must not be a non-singular query nor a Logical/Nodes-typed function result *)
Definition g_comparable (e : fexpr) : bool :=
  negb (g_is_query e && negb (g_singular (g_query_segs e))) &&
  match g_returns e with Some GValue | None => true | Some _ => false end.

(* a test expression must not be a Value-typed function result nor a literal *)
Definition g_testable (e : fexpr) : bool :=
  match g_returns e with Some GValue => false | _ => negb (g_is_literal e) end.

(* an argument for a parameter of the given declared type *)
Definition g_arg_ok (t : gtype) (a : fexpr) : bool :=
  match t with
  | GValue =>
      (match a with FNil | FUndefined | FBool _ | FInt _ | FFloat _ | FStr _ | FRegex _ _ | FList _ | FKey => true | _ => false end)
      || (g_is_query a && g_singular (g_query_segs a))
      || (match g_returns a with Some GValue => true | _ => false end)
  | GLogical => g_is_query a || (match a with FInfix _ _ _ => true | _ => false end)
  | GNodes => g_is_query a || (match g_returns a with Some GNodes => true | _ => false end)
  end.

Fixpoint g_args_ok (ts : list gtype) (args : list fexpr) : bool :=
  match ts, args with
  | [], [] => true
  | t :: ts', a :: args' => g_arg_ok t a && g_args_ok ts' args'
  | _, _ => false
  end.

Definition g_is_comparison (o : binop) : bool :=
  match o with BEq | BNe | BLt | BGt | BLe | BGe | BRe => true | _ => false end.

Section Gate.
  Variable lo hi : Z.                       (* the configured integer range *)
  Definition in_range (z : Z) : bool := Z.leb lo z && Z.leb z hi.
  Definition opt_in_range (o : option Z) : bool := match o with None => true | Some z => in_range z end.

  Fixpoint gate_expr (e : fexpr) : bool :=
    match e with
    | FList items => gate_exprs items
    | FNot r => g_testable r && gate_expr r
    | FInfix l o r =>
        gate_expr l && gate_expr r &&
        (if g_is_comparison o then g_comparable l && g_comparable r else true) &&
        (match o with BAnd | BOr => g_testable l && g_testable r | _ => true end)
    | FSelf p | FRoot _ p | FCtx p => gate_segs p
    | FFunc name args =>
        gate_exprs args &&
        match gate_sig name with
        | Some (ts, _) => g_args_ok ts (fexprs_list args)
        | None => false
        end
    | _ => true
    end
  with gate_exprs (es : fexprs) : bool :=
    match es with ENil => true | ECons e r => gate_expr e && gate_exprs r end
  with gate_sel (s : selector) : bool :=
    match s with
    | SIndex i => in_range i
    | SSlice a b c => opt_in_range a && opt_in_range b && opt_in_range c
    | SFilter e => g_testable e && gate_expr e
    | _ => true
    end
  with gate_sels (l : sels) : bool :=
    match l with LNil => true | LCons s r => gate_sel s && gate_sels r end
  with gate_seg (g : segment) : bool :=
    match g with
    | GSel s => gate_sel s
    | GDescent => true
    | GList LNil => false                    (* an empty bracketed selection *)
    | GList items => gate_sels items
    end
  with gate_segs (p : segs) : bool :=
    match p with PNil => true | PCons g r => gate_seg g && gate_segs r end.

  Definition gate_query (q : query) : bool :=
    gate_segs (p_segs (q_first q)) && forallb (fun op => gate_segs (p_segs (snd op))) (q_rest q).
End Gate.

(* C06: the documented error families *)
Definition jsonpath_family (e : exn) : bool := match e with EJsonPath _ => true | _ => false end.
Definition pointer_family (e : exn) : bool := match e with EPointer _ => true | _ => false end.
Definition relpointer_family (e : exn) : bool := match e with EPointer _ | ERelPointer _ => true | _ => false end.
Definition patch_family (e : exn) : bool := match e with EPatch _ => true | _ => false end.
(* the model answers EUnsupported for inputs it does not cover; such inputs are outside every theorem *)
Definition outside_model (e : exn) : bool := match e with EUnsupported => true | _ => false end.
