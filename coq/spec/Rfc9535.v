(* Rfc9535.v — RFC 9535 sections 2.3 - 2.5 transcribed (DESIGN.md Appendix B), on nodes
   (location, value).  Written in the RFC's own terms: a type-directed evaluation of filter
   expressions (nodelists, Nothing-or-value, logical), the RFC's slice algorithm
   (Normalize / Bounds), descendants of every kind of node.  No reference to the
   implementation model; the regular-expression engine is the same oracle.

   Documented departure built in: an index selector applied to an object selects the member
   whose name is the decimal spelling of the index. *)
From JP Require Import Base Json PyStr Syntax.

Definition node := (loc * json)%type.

Section Rfc9535.
  Variable re_full : ustr -> reflags -> ustr -> option bool.
  Variable re_search : ustr -> ustr -> option bool.

  (* ---- 2.3.1 - 2.3.4 selectors ------------------------------------------------ *)

  Definition sel_name (k : ustr) (n : node) : list node :=
    match snd n with
    | JObj ms => match lookup k ms with Some v => [(fst n ++ [PKey k], v)] | None => [] end
    | _ => []
    end.

  Definition sel_wild (n : node) : list node :=
    map (fun pc => (fst n ++ [fst pc], snd pc)) (children (snd n)).

  Definition sel_index (i : Z) (n : node) : list node :=
    match snd n with
    | JArr xs =>
        let len := Z.of_nat (length xs) in
        let j := if Z.leb 0 i then i else (len + i)%Z in
        if Z.leb 0 j && Z.ltb j len then
          match nth_opt xs (Z.to_nat j) with
          | Some v => [(fst n ++ [PIdx (Z.to_nat j)], v)]
          | None => []
          end
        else []
    | JObj ms =>                       (* documented departure *)
        match lookup (str_of_Z i) ms with
        | Some v => [(fst n ++ [PKey (str_of_Z i)], v)]
        | None => []
        end
    | _ => []
    end.

  (* 2.3.4.2.2: Normalize, Bounds, and the two loops *)
  Definition normalize (i len : Z) : Z := if Z.leb 0 i then i else (len + i)%Z.

  Fixpoint count_up (fuel : nat) (i upper step : Z) : list Z :=
    match fuel with
    | O => []
    | S f => if Z.ltb i upper then i :: count_up f (i + step)%Z upper step else []
    end.

  Fixpoint count_down (fuel : nat) (i lower step : Z) : list Z :=
    match fuel with
    | O => []
    | S f => if Z.ltb lower i then i :: count_down f (i + step)%Z lower step else []
    end.

  Definition rfc_slice_indices (len : Z) (start stop step : option Z) : list Z :=
    let step := match step with Some s => s | None => 1%Z end in
    if Z.eqb step 0 then []
    else if Z.leb 0 step then
      let n_start := normalize (match start with Some s => s | None => 0%Z end) len in
      let n_end := normalize (match stop with Some e => e | None => len end) len in
      let lower := Z.min (Z.max n_start 0) len in
      let upper := Z.min (Z.max n_end 0) len in
      count_up (Z.to_nat len) lower upper step
    else
      let n_start := normalize (match start with Some s => s | None => (len - 1)%Z end) len in
      let n_end := normalize (match stop with Some e => e | None => (- len - 1)%Z end) len in
      let upper := Z.min (Z.max n_start (-1)) (len - 1) in
      let lower := Z.min (Z.max n_end (-1)) (len - 1) in
      count_down (Z.to_nat len) upper lower step.

  Definition sel_slice (start stop step : option Z) (n : node) : list node :=
    match snd n with
    | JArr xs =>
        flat_map (fun i => match nth_opt xs (Z.to_nat i) with
                           | Some v => [(fst n ++ [PIdx (Z.to_nat i)], v)]
                           | None => []
                           end)
                 (rfc_slice_indices (Z.of_nat (length xs)) start stop step)
    | _ => []
    end.

  (* 2.5.2: the node itself and all its descendants, a node before its descendants, array
     elements in order, object members in document order *)
  Fixpoint descendants_val (l : loc) (v : json) {struct v} : list node :=
    (l, v) ::
    match v with
    | JObj ms =>
        (fix go (ms : list (ustr * json)) : list node :=
           match ms with
           | [] => []
           | (k, c) :: ms' => descendants_val (l ++ [PKey k]) c ++ go ms'
           end) ms
    | JArr xs =>
        (fix go (xs : list json) (i : nat) : list node :=
           match xs with
           | [] => []
           | c :: xs' => descendants_val (l ++ [PIdx i]) c ++ go xs' (S i)
           end) xs 0
    | _ => []
    end.

  Definition descendants (n : node) : list node := descendants_val (fst n) (snd n).

  (* ---- 2.3.5 / 2.4 filter expressions ----------------------------------------- *)

  (* 2.3.5.2.2 comparisons on Nothing-or-value *)
  Definition rfc_eq (a b : option json) : bool :=
    match a, b with
    | None, None => true
    | Some x, Some y => json_eq x y
    | _, _ => false
    end.

  Definition rfc_lt (a b : option json) : bool :=
    match a, b with
    | Some (JNum x), Some (JNum y) => num_ltb x y
    | Some (JStr x), Some (JStr y) => ustr_ltb x y
    | _, _ => false
    end.

  Definition rfc_compare (a : option json) (o : binop) (b : option json) : bool :=
    match o with
    | BEq => rfc_eq a b
    | BNe => negb (rfc_eq a b)
    | BLt => rfc_lt a b
    | BGt => rfc_lt b a
    | BLe => rfc_lt a b || rfc_eq a b
    | BGe => rfc_lt b a || rfc_eq a b
    | _ => false
    end.

  Definition is_comparison (o : binop) : bool :=
    match o with BEq | BNe | BLt | BGt | BLe | BGe => true | _ => false end.

  Definition fname_length : ustr := [108; 101; 110; 103; 116; 104]%N.
  Definition fname_count : ustr := [99; 111; 117; 110; 116]%N.
  Definition fname_value : ustr := [118; 97; 108; 117; 101]%N.
  Definition fname_match : ustr := [109; 97; 116; 99; 104]%N.
  Definition fname_search : ustr := [115; 101; 97; 114; 99; 104]%N.

  Definition no_flags : reflags := mkFlags false false false false.

  (* 2.4.4 length *)
  Definition fn_length (v : option json) : option json :=
    match v with
    | Some (JStr s) => Some (JNum (num_of_Z (Z.of_nat (length s))))
    | Some (JArr xs) => Some (JNum (num_of_Z (Z.of_nat (length xs))))
    | Some (JObj ms) => Some (JNum (num_of_Z (Z.of_nat (length ms))))
    | _ => None
    end.

  (* 2.4.6 / 2.4.7 match, search *)
  Definition fn_match (s p : option json) : bool :=
    match s, p with
    | Some (JStr s), Some (JStr p) => match re_full p no_flags s with Some b => b | None => false end
    | _, _ => false
    end.
  Definition fn_search (s p : option json) : bool :=
    match s, p with
    | Some (JStr s), Some (JStr p) => match re_search p s with Some b => b | None => false end
    | _, _ => false
    end.

  (* 2.4.8 value *)
  Definition fn_value (ns : list node) : option json :=
    match ns with [n] => Some (snd n) | _ => None end.

  (* ---- documented extensions (docs/syntax.md, docs/advanced.md) ------------------- *)

  (* typeof(): "the type of the first argument as a string, in JSON terminology, like
     JavaScript's typeof"; NodesType parameter, ValueType result (docs/functions.md).  Nothing
     selected is "undefined"; exactly one node is named after its value; several nodes are the
     array of their values. *)
  Definition fname_typeof : ustr := [116; 121; 112; 101; 111; 102]%N.
  Definition type_name (v : json) : ustr :=
    match v with
    | JNull => [110; 117; 108; 108]%N
    | JBool _ => [98; 111; 111; 108; 101; 97; 110]%N
    | JNum _ => [110; 117; 109; 98; 101; 114]%N
    | JStr _ => [115; 116; 114; 105; 110; 103]%N
    | JArr _ => [97; 114; 114; 97; 121]%N
    | JObj _ => [111; 98; 106; 101; 99; 116]%N
    end.
  Definition fn_typeof (ns : list node) : option json :=
    match ns with
    | [] => Some (JStr [117; 110; 100; 101; 102; 105; 110; 101; 100]%N)
    | [n] => Some (JStr (type_name (snd n)))
    | _ :: _ :: _ => Some (JStr (type_name (JArr (map snd ns))))
    end.

  (* `in` / `contains`: membership in arrays (element equality as the host language's
     list membership), strings (substring) and object keys *)
  Fixpoint substring_of (a b : ustr) : bool :=
    starts_with a b || match b with [] => false | _ :: b' => substring_of a b' end.

  Definition member_of (x : option json) (c : option json) : bool :=
    match c, x with
    | Some (JArr xs), Some v => existsb (fun e => py_eq e v) xs
    | Some (JStr s), Some (JStr a) => substring_of a s
    | Some (JObj ms), Some (JStr k) => match lookup k ms with Some _ => true | None => false end
    | _, _ => false
    end.

  Definition part_value (p : part) : json :=
    match p with PKey k => JStr k | PIdx i => JNum (num_of_Z (Z.of_nat i)) end.

  (* keys selector: the member names of an object, in order; nothing for other values.
     The location of such a "node" is the object's location extended by the marker ~name. *)
  Variable keys_token : ustr.
  Definition sel_keys (n : node) : list node :=
    match snd n with
    | JObj ms => map (fun kv => (fst n ++ [PKey (keys_token ++ fst kv)], JStr (fst kv))) ms
    | _ => []
    end.

  (* Type-directed evaluation.  [root] is the query argument ($ at every depth), [cur] the
     candidate child (@), [ctx] the caller-supplied filter context (_ at every depth),
     [key] the member name or index of the candidate (#). *)
  Fixpoint q_nodes (e : fexpr) (root ctx cur key : json) {struct e} : list node :=
    match e with
    | FSelf p => segs_nodes p root ctx [([], cur)]
    | FRoot fake p => segs_nodes p root ctx [([], if fake then JArr [root] else root)]
    | FCtx p => segs_nodes p root ctx [([], ctx)]
    | _ => []
    end
  with v_value (e : fexpr) (root ctx cur key : json) {struct e} : option json :=
    match e with
    | FNil => Some JNull
    | FUndefined => None
    | FBool b => Some (JBool b)
    | FInt z => Some (JNum (num_of_Z z))
    | FFloat n => Some (JNum n)
    | FStr s => Some (JStr s)
    | FKey => Some key
    | FList items => Some (JArr (vs_values items root ctx cur key))
    | FSelf p =>                                                              (* singular query *)
        match segs_nodes p root ctx [([], cur)] with [n] => Some (snd n) | _ => None end
    | FRoot fake p =>
        match segs_nodes p root ctx [([], if fake then JArr [root] else root)] with
        | [n] => Some (snd n) | _ => None end
    | FCtx p =>
        match segs_nodes p root ctx [([], ctx)] with [n] => Some (snd n) | _ => None end
    | FFunc name args =>
        if ustr_eqb name fname_length then
          match args with ECons a ENil => fn_length (v_value a root ctx cur key) | _ => None end
        else if ustr_eqb name fname_count then
          match args with
          | ECons a ENil => Some (JNum (num_of_Z (Z.of_nat (length (q_nodes a root ctx cur key)))))
          | _ => None
          end
        else if ustr_eqb name fname_value then
          match args with ECons a ENil => fn_value (q_nodes a root ctx cur key) | _ => None end
        else if ustr_eqb name fname_typeof then
          match args with ECons a ENil => fn_typeof (q_nodes a root ctx cur key) | _ => None end
        else None
    | _ => None
    end
  with vs_values (es : fexprs) (root ctx cur key : json) {struct es} : list json :=
    match es with
    | ENil => []
    | ECons e r =>
        match v_value e root ctx cur key with
        | Some v => v :: vs_values r root ctx cur key
        | None => JNull :: vs_values r root ctx cur key
        end
    end
  with l_test (e : fexpr) (root ctx cur key : json) {struct e} : bool :=
    match e with
    | FNot r => negb (l_test r root ctx cur key)
    | FInfix l BAnd r => l_test l root ctx cur key && l_test r root ctx cur key
    | FInfix l BOr r => l_test l root ctx cur key || l_test r root ctx cur key
    | FInfix l BLg r => negb (rfc_eq (v_value l root ctx cur key) (v_value r root ctx cur key))
    | FInfix l BIn r => member_of (v_value l root ctx cur key) (v_value r root ctx cur key)
    | FInfix l BContains r => member_of (v_value r root ctx cur key) (v_value l root ctx cur key)
    | FInfix l BRe (FRegex p fl) =>
        match v_value l root ctx cur key with
        | Some (JStr s) => match re_full p fl s with Some b => b | None => false end
        | _ => false
        end
    | FInfix l o r => rfc_compare (v_value l root ctx cur key) o (v_value r root ctx cur key)
    | FSelf p => match segs_nodes p root ctx [([], cur)] with [] => false | _ => true end
    | FRoot fake p =>
        match segs_nodes p root ctx [([], if fake then JArr [root] else root)] with [] => false | _ => true end
    | FCtx p => match segs_nodes p root ctx [([], ctx)] with [] => false | _ => true end
    | FFunc name args =>
        if ustr_eqb name fname_match then
          match args with
          | ECons a (ECons b ENil) => fn_match (v_value a root ctx cur key) (v_value b root ctx cur key)
          | _ => false
          end
        else if ustr_eqb name fname_search then
          match args with
          | ECons a (ECons b ENil) => fn_search (v_value a root ctx cur key) (v_value b root ctx cur key)
          | _ => false
          end
        else false
    | _ => false
    end
  with sel_nodes (s : selector) (root ctx : json) (n : node) {struct s} : list node :=
    match s with
    | SName k => sel_name k n
    | SIndex i => sel_index i n
    | SSlice a b c => sel_slice a b c n
    | SWild => sel_wild n
    | SKeys => sel_keys n
    | SFilter e =>
        flat_map (fun pc => if l_test e root ctx (snd pc) (part_value (fst pc))
                            then [(fst n ++ [fst pc], snd pc)] else [])
                 (children (snd n))
    end
  with sels_nodes (l : sels) (root ctx : json) (n : node) {struct l} : list node :=
    match l with
    | LNil => []
    | LCons s r => sel_nodes s root ctx n ++ sels_nodes r root ctx n
    end
  with seg_nodes (g : segment) (root ctx : json) (ns : list node) {struct g} : list node :=
    match g with
    | GSel s => flat_map (sel_nodes s root ctx) ns
    | GList items => flat_map (sels_nodes items root ctx) ns
    | GDescent => flat_map descendants ns
    end
  with segs_nodes (p : segs) (root ctx : json) (ns : list node) {struct p} : list node :=
    match p with
    | PNil => ns
    | PCons g r => segs_nodes r root ctx (seg_nodes g root ctx ns)
    end.

  (* the fake root yields the document wrapped in a one-element array *)
  Definition path_nodes (p : jpath) (d ctx : json) : list node :=
    segs_nodes (p_segs p) d ctx [([], if p_fake p then JArr [d] else d)].

  (* compound queries: union = left then right; intersection = left restricted to values the
     right produced (the host language's list membership); folded left to right *)
  Fixpoint compound_nodes (acc : list node) (rest : list (setop * jpath)) (d ctx : json) : list node :=
    match rest with
    | [] => acc
    | (OpUnion, p) :: rest' => compound_nodes (acc ++ path_nodes p d ctx) rest' d ctx
    | (OpIntersect, p) :: rest' =>
        let right := map snd (path_nodes p d ctx) in
        compound_nodes (filter (fun n => existsb (fun v => py_eq v (snd n)) right) acc) rest' d ctx
    end.

  Definition query_nodes (q : query) (d ctx : json) : list node :=
    compound_nodes (path_nodes (q_first q) d ctx) (q_rest q) d ctx.

  (* 2.1.2: the nodelist of a query applied to a query argument *)
  Definition nodelist (p : segs) (d : json) : list node := segs_nodes p d (JObj []) [([], d)].

End Rfc9535.
