(* Edit.v — "the document that differs from the original at exactly that location":
   structural replace / delete at a location, and the documented semantics of the
   non-standard addne / addap operations.  Specification side. *)
From JP Require Import Base Json PyStr Rfc6901 Rfc6902.

(* replace the node at location l by x; None if l is not a location of d *)
Fixpoint replace_at (d : json) (l : loc) (x : json) : option json :=
  match l with
  | [] => Some x
  | PKey k :: l' =>
      match d with
      | JObj ms =>
          match lookup k ms with
          | Some c => option_map (fun c' => JObj (member_set ms k c')) (replace_at c l' x)
          | None => None
          end
      | _ => None
      end
  | PIdx i :: l' =>
      match d with
      | JArr xs =>
          match nth_opt xs i with
          | Some c => match replace_at c l' x with
                      | Some c' => option_map JArr (elem_replace xs i c')
                      | None => None
                      end
          | None => None
          end
      | _ => None
      end
  end.

(* remove the member or element at location l; None for the root or a non-location *)
Fixpoint delete_at (d : json) (l : loc) : option json :=
  match l with
  | [] => None
  | [PKey k] => match d with JObj ms => option_map JObj (member_remove ms k) | _ => None end
  | [PIdx i] => match d with JArr xs => option_map JArr (elem_remove xs i) | _ => None end
  | PKey k :: l' =>
      match d with
      | JObj ms =>
          match lookup k ms with
          | Some c => option_map (fun c' => JObj (member_set ms k c')) (delete_at c l')
          | None => None
          end
      | _ => None
      end
  | PIdx i :: l' =>
      match d with
      | JArr xs =>
          match nth_opt xs i with
          | Some c => match delete_at c l' with
                      | Some c' => option_map JArr (elem_replace xs i c')
                      | None => None
                      end
          | None => None
          end
      | _ => None
      end
  end.

(* documented: addne is add, except that an existing object member is left untouched *)
Definition doc_addne (path : list ustr) (v : json) (d : json) : outcome :=
  match last_opt path with
  | None => OOk v
  | Some t =>
      match rfc_get (removelast path) d with
      | Some (JObj ms) =>
          match lookup t ms with
          | Some _ => OOk d
          | None => of_option (rfc_add path v d)
          end
      | _ => of_option (rfc_add path v d)
      end
  end.

(* documented: addap is add, except that it appends when the array index cannot be resolved
   (an index at or beyond the end) *)
Definition doc_addap (path : list ustr) (v : json) (d : json) : outcome :=
  match last_opt path with
  | None => OOk v
  | Some t =>
      match rfc_get (removelast path) d with
      | Some (JArr xs) =>
          match array_index t with
          | Some z =>
              if Z.leb (Z.of_nat (length xs)) z
              then of_option (rfc_add (removelast path ++ [[ch_minus]]) v d)
              else of_option (rfc_add path v d)
          | None => of_option (rfc_add path v d)
          end
      | _ => of_option (rfc_add path v d)
      end
  end.
