(* RelPtrDraft.v — Relative JSON Pointer (draft-hha-relative-json-pointer-00) on reference tokens.
     relative-json-pointer = non-negative-integer [ ("+" / "-") positive-integer ] ( "#" / json-pointer )
   Written from the draft text (DESIGN.md Appendix B); no reference to the implementation model. *)
From JP Require Import Base Json PyStr Rfc6901.

Inductive dsuffix := DHash | DPtr (ts : list ustr).
Record drel := mkDRel { d_steps : Z; d_offset : Z; d_suffix : dsuffix }.

(* longest prefix of ASCII digits *)
Fixpoint take_digits (s : ustr) : ustr * ustr :=
  match s with
  | c :: s' => if is_ascii_digit c then let '(d, r) := take_digits s' in (c :: d, r) else ([], s)
  | [] => ([], [])
  end.

Definition draft_suffix (s : ustr) : option dsuffix :=
  if ustr_eqb s [ch_hash] then Some DHash
  else if rfc6901_syntax s then Some (DPtr (rfc_tokens s)) else None.

Definition draft_parse (r : ustr) : option drel :=
  let '(steps_txt, rest) := take_digits r in
  if negb (canonical_nonneg steps_txt) then None
  else
    let steps := dec_value steps_txt in
    match rest with
    | c :: rest' =>
        if N.eqb c ch_plus || N.eqb c ch_minus then
          let '(off_txt, rest'') := take_digits rest' in
          if canonical_nonneg off_txt && negb (Z.eqb (dec_value off_txt) 0) then
            match draft_suffix rest'' with
            | Some sfx => Some (mkDRel steps (if N.eqb c ch_minus then - dec_value off_txt else dec_value off_txt)%Z sfx)
            | None => None
            end
          else None
        else option_map (mkDRel steps 0%Z) (draft_suffix rest)
    | [] => Some (mkDRel steps 0%Z (DPtr []))
    end.

Definition draft_syntax (r : ustr) : bool :=
  match draft_parse r with Some _ => true | None => false end.

Fixpoint replace_last {A} (l : list A) (x : A) : list A :=
  match l with
  | [] => []
  | [_] => [x]
  | y :: l' => y :: replace_last l' x
  end.

(* the offset step is defined when there is no offset, or the now-last token is an array index *)
Definition offset_applicable (rel : drel) (base : list ustr) : bool :=
  Z.eqb (d_offset rel) 0 ||
  (Z.ltb (Z.of_nat (length base)) (d_steps rel)) ||
  match last_opt (firstn (length base - Z.to_nat (d_steps rel)) base) with
  | Some t => canonical_nonneg t
  | None => false
  end.

(* None = the draft forbids this application *)
Definition draft_apply (rel : drel) (base : list ustr) : option (list ustr) :=
  if Z.ltb (Z.of_nat (length base)) (d_steps rel) then None
  else
    let ts := firstn (length base - Z.to_nat (d_steps rel)) base in
    let ts1 :=
      if Z.eqb (d_offset rel) 0 then Some ts
      else match last_opt ts with
           | Some t =>
               if canonical_nonneg t then
                 let i := (dec_value t + d_offset rel)%Z in
                 if Z.ltb i 0 then None else Some (replace_last ts (str_of_Z i))
               else None
           | None => None
           end in
    match ts1 with
    | None => None
    | Some ts1 =>
        match d_suffix rel with
        | DPtr sfx => Some (ts1 ++ sfx)
        | DHash =>
            match last_opt ts1 with
            | Some t => Some (replace_last ts1 (ch_hash :: t))
            | None => None
            end
        end
    end.
