(* CliSpec.v — what property C18 demands of the command-line tool, per library outcome. *)
From JP Require Import Base Cli.

Definition s (l : list N) : cname := l.
(* the exception classes the library can raise for rejected input, per sub-command and stage
   (stage = which library call: 0 = compile / resolve / load patch, 1 = evaluate / apply) *)
Definition c_JSONPathSyntaxError := s [74;83;79;78;80;97;116;104;83;121;110;116;97;120;69;114;114;111;114]%N.
Definition c_JSONPathTypeError := s [74;83;79;78;80;97;116;104;84;121;112;101;69;114;114;111;114]%N.
Definition c_JSONPathIndexError := s [74;83;79;78;80;97;116;104;73;110;100;101;120;69;114;114;111;114]%N.
Definition c_JSONPathNameError := s [74;83;79;78;80;97;116;104;78;97;109;101;69;114;114;111;114]%N.
Definition c_JSONDecodeError := s [74;83;79;78;68;101;99;111;100;101;69;114;114;111;114]%N.
Definition c_UnicodeDecodeError := s [85;110;105;99;111;100;101;68;101;99;111;100;101;69;114;114;111;114]%N.
Definition c_JSONPointerError := s [74;83;79;78;80;111;105;110;116;101;114;69;114;114;111;114]%N.
Definition c_JSONPointerIndexError := s [74;83;79;78;80;111;105;110;116;101;114;73;110;100;101;120;69;114;114;111;114]%N.
Definition c_JSONPointerKeyError := s [74;83;79;78;80;111;105;110;116;101;114;75;101;121;69;114;114;111;114]%N.
Definition c_JSONPointerTypeError := s [74;83;79;78;80;111;105;110;116;101;114;84;121;112;101;69;114;114;111;114]%N.
Definition c_JSONPatchError := s [74;83;79;78;80;97;116;99;104;69;114;114;111;114]%N.
Definition c_JSONPatchTestFailure := s [74;83;79;78;80;97;116;99;104;84;101;115;116;70;97;105;108;117;114;101]%N.

(* the rejected-input outcomes the property lists: malformed query, type / name / index error,
   unresolvable pointer, failing patch, undecodable document *)
Definition rejections (c : command) : list cli_outcome :=
  match c with
  | CmdPath =>
      [Raises 0 c_JSONPathSyntaxError; Raises 0 c_JSONPathTypeError; Raises 0 c_JSONPathIndexError;
       Raises 0 c_JSONPathNameError; Raises 1 c_JSONDecodeError; Raises 1 c_UnicodeDecodeError;
       Raises 1 c_JSONPathTypeError]
  | CmdPointer =>
      [Raises 0 c_JSONDecodeError; Raises 0 c_UnicodeDecodeError; Raises 0 c_JSONPointerError;
       Raises 0 c_JSONPointerIndexError; Raises 0 c_JSONPointerKeyError; Raises 0 c_JSONPointerTypeError]
  | CmdPatch =>
      [Raises 0 c_JSONDecodeError; Raises 0 c_UnicodeDecodeError;
       Raises 1 c_JSONDecodeError; Raises 1 c_UnicodeDecodeError; Raises 1 c_JSONPatchError;
       Raises 1 c_JSONPatchTestFailure]
  end.

(* success: the serialisation on stdout, status 0, nothing else.
   rejected input: one line on stderr, status 1, and a traceback only when debugging *)
Definition demanded (debug : bool) (o : cli_outcome) : observed :=
  match o with
  | Success => mkObs 0 true 0 false
  | Raises _ _ => if debug then mkObs 1 false 0 true else mkObs 1 false 1 false
  end.

Definition obs_eqb (a b : observed) : bool :=
  Nat.eqb (o_status a) (o_status b) && Bool.eqb (o_stdout a) (o_stdout b) &&
  Nat.eqb (o_stderr_lines a) (o_stderr_lines b) && Bool.eqb (o_traceback a) (o_traceback b).

Definition all_commands : list command := [CmdPath; CmdPointer; CmdPatch].

(* the whole (finite) table *)
Definition table_ok : bool :=
  forallb (fun c =>
    forallb (fun debug =>
      forallb (fun o => obs_eqb (cli_run c debug o) (demanded debug o)) (Success :: rejections c))
      [true; false]) all_commands.
