(* TokensOk.v — C17: which assignments of spellings to the eight configurable identifiers are
   covered ("distinct, non-overlapping spellings ... including multi-character spellings and one
   being a prefix of another").  Definitions only.

   A spelling is a non-empty string over the sign characters that belong to no fixed syntax of the
   query language - $ ^ @ # ~ % ; ` { } _ | & - and does not begin with && or || (the two fixed
   operators made of those signs).  The eight spellings are pairwise distinct; one may be a prefix
   of another (the lexer tries longer spellings first). *)
From JP Require Import Base Json PyStr Syntax Lex.

Definition sign_char (c : N) : bool :=
  existsb (N.eqb c) [36; 94; 64; 35; 126; 37; 59; 96; 123; 125; 95; 124; 38]%N.

Definition spelling_ok (t : ustr) : bool :=
  match t with
  | [] => false
  | _ => forallb sign_char t && negb (starts_with [38; 38]%N t) && negb (starts_with [124; 124]%N t)
  end.

Definition spellings (E : env) : list ustr :=
  [e_root E; e_fake_root E; e_self E; e_key E; e_union E; e_intersection E; e_filter_context E; e_keys E].

Fixpoint pairwise_distinct (l : list ustr) : bool :=
  match l with
  | [] => true
  | x :: r => negb (existsb (ustr_eqb x) r) && pairwise_distinct r
  end.

Definition tokens_ok (E : env) : bool :=
  forallb spelling_ok (spellings E) && pairwise_distinct (spellings E).

(* two environments that differ at most in the spellings *)
Definition same_settings (E E' : env) : Prop :=
  e_min_index E = e_min_index E' /\ e_max_index E = e_max_index E' /\
  e_unicode_escape E = e_unicode_escape E' /\ e_well_typed E = e_well_typed E' /\
  e_filter_caching E = e_filter_caching E'.

(* what a caller observes of a result list, leaving out the one thing that legitimately shows the
   spellings (the normalized path text, and the keys spelling inside the location of a key match) *)
Definition on_ok {A B} (f : A -> B) (r : result A) : result B :=
  match r with Ok x => Ok (f x) | Err e => Err e end.
