(* Reparsable.v — the shape conditions (beyond the typing gate and Printable) under which the
   string form of a compiled query parses back; every query the parser produces satisfies them
   (for environments whose index range contains 1).  Definitions only.
     - a function argument is one of the forms the parser's argument loop yields;
     - a selector standing alone at path level is a name, wildcard, keys or slice selector;
     - a slice whose step is omitted is printed with step 1, which must lie in the index range. *)
From JP Require Import Base Json PyStr PyJsonStr Syntax Lex Parse Serialize Printable Gate.

Definition arg_form (e : fexpr) : bool :=
  match e with
  | FStr _ | FRoot _ _ | FSelf _ | FCtx _ | FBool _ | FFloat _ | FInt _ | FKey | FNil | FFunc _ _ => true
  | _ => false
  end.

Definition bare_form (s : selector) : bool :=
  match s with SName _ | SWild | SKeys | SSlice _ _ _ => true | _ => false end.

Section Reparsable.
  Variable E : env.

  Definition one_in_range : bool := in_range (e_min_index E) (e_max_index E) 1%Z.
  Definition step_ok (c : option Z) : bool := match c with None => one_in_range | Some _ => true end.

  Fixpoint rp_expr (e : fexpr) : bool :=
    match e with
    | FNot r => rp_expr r
    | FInfix l _ r => rp_expr l && rp_expr r
    | FSelf p | FRoot _ p | FCtx p => rp_segs p
    | FFunc _ args => rp_args args
    | _ => true
    end
  with rp_args (es : fexprs) : bool :=
    match es with ENil => true | ECons e r => arg_form e && rp_expr e && rp_args r end
  with rp_sel (s : selector) : bool :=
    match s with SFilter e => rp_expr e | SSlice _ _ c => step_ok c | _ => true end
  with rp_sels (l : sels) : bool :=
    match l with LNil => true | LCons s r => rp_sel s && rp_sels r end
  with rp_seg (g : segment) : bool :=
    match g with GSel s => bare_form s && rp_sel s | GDescent => true | GList items => rp_sels items end
  with rp_segs (p : segs) : bool :=
    match p with PNil => true | PCons g r => rp_seg g && rp_segs r end.

  Definition reparsable (q : query) : bool :=
    rp_segs (p_segs (q_first q)) && forallb (fun op => rp_segs (p_segs (snd op))) (q_rest q).
End Reparsable.

(* every float literal of the query has a repr that parses back (Printable.float_ok); the part of
   [printable] that does not follow from having been parsed *)
Fixpoint fl_expr (e : fexpr) : bool :=
  match e with
  | FFloat n => float_ok n
  | FList items => fl_exprs items
  | FNot r => fl_expr r
  | FInfix l _ r => fl_expr l && fl_expr r
  | FSelf p | FRoot _ p | FCtx p => fl_segs p
  | FFunc _ args => fl_exprs args
  | _ => true
  end
with fl_exprs (es : fexprs) : bool :=
  match es with ENil => true | ECons e r => fl_expr e && fl_exprs r end
with fl_sel (s : selector) : bool :=
  match s with SFilter e => fl_expr e | _ => true end
with fl_sels (l : sels) : bool :=
  match l with LNil => true | LCons s r => fl_sel s && fl_sels r end
with fl_seg (g : segment) : bool :=
  match g with GSel s => fl_sel s | GDescent => true | GList items => fl_sels items end
with fl_segs (p : segs) : bool :=
  match p with PNil => true | PCons g r => fl_seg g && fl_segs r end.

Definition floats_ok (q : query) : bool :=
  fl_segs (p_segs (q_first q)) && forallb (fun op => fl_segs (p_segs (snd op))) (q_rest q).
