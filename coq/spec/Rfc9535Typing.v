(* Rfc9535Typing.v — an independent checker for RFC 9535 well-typedness (section 2.4.3) and
   the shape restrictions of sections 2.3.5 (comparables, test expressions), over the five
   standard functions.  Two levels:
     std_*  : the query uses only RFC 9535 constructs and is well-typed;
     ext_*  : as std, but the documented extensions are admitted where the documentation
              places them (keys selector, fake root, #, _, in/contains with list literals,
              =~ with a regex literal, <>, comparison with undefined, the typeof function).
   Written from the RFC text; no reference to the implementation. *)
From JP Require Import Base Json PyStr Syntax.

Definition tname_length : ustr := [108; 101; 110; 103; 116; 104]%N.
Definition tname_count : ustr := [99; 111; 117; 110; 116]%N.
Definition tname_value : ustr := [118; 97; 108; 117; 101]%N.
Definition tname_match : ustr := [109; 97; 116; 99; 104]%N.
Definition tname_search : ustr := [115; 101; 97; 114; 99; 104]%N.
(* the documented extension function typeof(NodesType) -> ValueType (docs/functions.md) *)
Definition tname_typeof : ustr := [116; 121; 112; 101; 111; 102]%N.

(* singular query: name and index selectors only, one per segment *)
Fixpoint singular (p : segs) : bool :=
  match p with
  | PNil => true
  | PCons (GSel (SName _)) r => singular r
  | PCons (GList (LCons (SName _) LNil)) r => singular r
  | PCons (GList (LCons (SIndex _) LNil)) r => singular r
  | _ => false
  end.

(* every '..' is followed by a child segment *)
Fixpoint descent_ok (p : segs) : bool :=
  match p with
  | PNil => true
  | PCons GDescent PNil => false
  | PCons GDescent (PCons GDescent _) => false
  | PCons _ r => descent_ok r
  end.

Definition is_cmp (o : binop) : bool :=
  match o with BEq | BNe | BLt | BGt | BLe | BGe => true | _ => false end.

(* `undefined` may be compared with, but is not a function argument *)
Definition is_undefined (e : fexpr) : bool := match e with FUndefined => true | _ => false end.

Section Typing.
  Variable ext : bool.        (* admit the documented extensions? *)

  Fixpoint wt_logical (e : fexpr) : bool :=
    match e with
    | FNot r => wt_logical r
    | FInfix l BAnd r | FInfix l BOr r => wt_logical l && wt_logical r
    | FInfix l BLg r => ext && wt_comparable l && wt_comparable r
    | FInfix l BIn r | FInfix l BContains r => ext && wt_member l && wt_member r
    | FInfix l BRe (FRegex _ _) => ext && wt_comparable l
    | FInfix l BRe _ => false
    | FInfix l _ r => wt_comparable l && wt_comparable r
    | FSelf p => wt_segs p
    | FRoot fake p => (ext || negb fake) && wt_segs p
    | FCtx p => ext && wt_segs p
    | FFunc name args =>
        (ustr_eqb name tname_match || ustr_eqb name tname_search) &&
        match args with
        | ECons a (ECons b ENil) =>
            negb (is_undefined a) && wt_comparable a && (negb (is_undefined b) && wt_comparable b)
        | _ => false
        end
    | _ => false
    end
  with wt_comparable (e : fexpr) : bool :=
    match e with
    | FNil | FBool _ | FInt _ | FFloat _ | FStr _ => true
    | FUndefined | FKey => ext
    | FSelf p => singular p
    | FRoot fake p => (ext || negb fake) && singular p
    | FCtx p => ext && singular p
    | FFunc name args =>
        if ustr_eqb name tname_length then
          match args with ECons a ENil => negb (is_undefined a) && wt_comparable a | _ => false end
        else if ustr_eqb name tname_count || ustr_eqb name tname_value then
          match args with ECons a ENil => wt_nodes a | _ => false end
        else if ext && ustr_eqb name tname_typeof then
          match args with ECons a ENil => wt_nodes a | _ => false end
        else false
    | _ => false
    end
  with wt_nodes (e : fexpr) : bool :=
    match e with
    | FSelf p => wt_segs p
    | FRoot fake p => (ext || negb fake) && wt_segs p
    | FCtx p => ext && wt_segs p
    | _ => false
    end
  with wt_member (e : fexpr) : bool :=       (* operands of in / contains *)
    match e with
    | FList items => wt_literals items
    | FSelf p => wt_segs p
    | FRoot fake p => wt_segs p
    | FCtx p => wt_segs p
    | FNil | FBool _ | FInt _ | FFloat _ | FStr _ | FKey => true
    | FFunc name args =>
        if ustr_eqb name tname_length then
          match args with ECons a ENil => negb (is_undefined a) && wt_comparable a | _ => false end
        else if ustr_eqb name tname_count || ustr_eqb name tname_value then
          match args with ECons a ENil => wt_nodes a | _ => false end
        else if ext && ustr_eqb name tname_typeof then
          match args with ECons a ENil => wt_nodes a | _ => false end
        else false
    | _ => false
    end
  with wt_literals (es : fexprs) : bool :=
    match es with
    | ENil => true
    | ECons (FNil | FBool _ | FInt _ | FFloat _ | FStr _) r => wt_literals r
    | ECons _ _ => false
    end
  with wt_sel (s : selector) : bool :=
    match s with
    | SFilter e => wt_logical e
    | SKeys => ext
    | _ => true
    end
  with wt_sels (l : sels) : bool :=
    match l with LNil => true | LCons s r => wt_sel s && wt_sels r end
  with wt_seg (g : segment) : bool :=
    match g with
    | GSel (SName _) => true              (* .name  .*  and, with the extensions, .~ : the only *)
    | GSel SWild => true                  (* selectors that stand alone at path level; no text *)
    | GSel SKeys => ext                   (* denotes a bare index, slice or filter *)
    | GSel _ => false
    | GDescent => true
    | GList LNil => false
    | GList items => wt_sels items
    end
  with wt_segs (p : segs) : bool :=
    match p with
    | PNil => true
    | PCons g r => wt_seg g && wt_segs r
    end.

  (* a function argument of Value type: a comparable other than `undefined` *)
  Definition wt_arg (e : fexpr) : bool := negb (is_undefined e) && wt_comparable e.

  Definition wt_path (p : jpath) : bool := (ext || negb (p_fake p)) && wt_segs (p_segs p) && descent_ok (p_segs p).
End Typing.

(* '..' well-placed in every nested sub-query too *)
Fixpoint dk_expr (e : fexpr) : bool :=
  match e with
  | FList items => dk_exprs items
  | FNot r => dk_expr r
  | FInfix l _ r => dk_expr l && dk_expr r
  | FSelf p | FRoot _ p | FCtx p => descent_ok p && dk_segs p
  | FFunc _ args => dk_exprs args
  | _ => true
  end
with dk_exprs (es : fexprs) : bool :=
  match es with ENil => true | ECons e r => dk_expr e && dk_exprs r end
with dk_sel (s : selector) : bool :=
  match s with SFilter e => dk_expr e | _ => true end
with dk_sels (l : sels) : bool :=
  match l with LNil => true | LCons s r => dk_sel s && dk_sels r end
with dk_seg (g : segment) : bool :=
  match g with GSel s => dk_sel s | GDescent => true | GList items => dk_sels items end
with dk_segs (p : segs) : bool :=
  match p with PNil => true | PCons g r => dk_seg g && dk_segs r end.

Definition std_path (p : jpath) : bool := wt_path false p && dk_segs (p_segs p).
Definition ext_path (p : jpath) : bool := wt_path true p && dk_segs (p_segs p).
Definition std_query (q : query) : bool := std_path (q_first q) && match q_rest q with [] => true | _ => false end.
Definition ext_query (q : query) : bool := ext_path (q_first q) && forallb (fun op => ext_path (snd op)) (q_rest q).
