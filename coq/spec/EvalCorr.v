(* EvalCorr.v — the vocabulary relating the implementation model's run-time objects to the
   specification's: the node a match denotes, and the run-time forms of a specification
   operand.  Shared by props/C01.v, C02.v, C13.v and proofs/EvalProofs.v. *)
From JP Require Import Base Json Syntax Eval Rfc9535.

Definition node_of (m : jmatch) : node := (m_parts m, m_val m).

(* a specification operand (Nothing or a value) and every run-time form in which the code can
   hand it to the comparison: Nothing is an empty node list or the UNDEFINED sentinel *)
Inductive repr : fval -> option json -> Prop :=
| repr_val v : repr (VVal v) (Some v)
| repr_undef : repr VUndef None
| repr_empty : repr (VNodes []) None.
