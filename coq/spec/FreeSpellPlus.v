(* FreeSpellPlus.v — two more free choices in the spelling of a query, on top of spec/FreeSpell.v:

     (a) redundant parentheses: inside a filter, a logical sub-expression (the whole filter
         expression, an operand of && || !, a parenthesised group) or an operand of a comparison may
         be wrapped in any number of extra "( )" pairs;
     (b) bare names inside brackets: in a bracketed selection a name may be written without quotes,
         $[a, b]  (the scanner's TBare token, accepted by Parser.parse_selector_list).

   The choices are made on the token level: [px_query E qs ts] says that [ts] is a token sequence of
   the marked query [qs] (FreeSpell.sh_query_toks with the two extra choices).  Definitions only. *)
From Coq Require Import ZArith List Bool.
From JP Require Import Base PyStr Syntax Lex Serialize TokPrint FreeSpell.
Import ListNotations.

(* an expression that is a primary of the filter grammar without needing parentheses *)
Definition atom_expr (e : fexpr) : bool :=
  match e with FNot _ | FInfix _ _ _ => false | _ => true end.

Definition paren (x : list token) : list token := lparen :: x ++ [rparen].

Section PlusToks.
  Variable E : env.

  Definition root_token (fake : bool) : token :=
    if fake then mkTok TFakeRoot (e_fake_root E) else mkTok TRoot (e_root E).
  Definition setop_token (o : setop) : token :=
    match o with OpUnion => mkTok TUnion (e_union E) | OpIntersect => mkTok TIntersect (e_intersection E) end.

  (* Each relation contains the corresponding function of FreeSpell.ShToks ([*_same]); the other
     rules repeat the function's clause for the constructs through which a choice can be reached,
     and add the two choices ([pc_paren], [po_paren]; [ps_bare]).

       px_expr e x        sh_expr_toks  : e as a primary (atoms; inside them, paths and arguments)
       px_operand e x     an operand of a comparison
       px_canon e par x   sh_canon_toks : e below an operator of precedence par (1 = none) *)
  Inductive px_expr : fexpr -> list token -> Prop :=
  | px_same e x : sh_expr_toks E e = Ok x -> px_expr e x
  | px_self p x : px_segs p x -> px_expr (FSelf p) (mkTok TSelf (e_self E) :: x)
  | px_root fake p x : px_segs p x -> px_expr (FRoot fake p) (root_token fake :: x)
  | px_ctx p x : px_segs p x -> px_expr (FCtx p) (mkTok TFilterCtx (e_filter_context E) :: x)
  | px_func name args xs :
      px_exprs args xs -> px_expr (FFunc name args) (mkTok TFunction name :: sep_by [comma] xs ++ [rparen])
  with px_exprs : fexprs -> list (list token) -> Prop :=
  | pxs_nil : px_exprs ENil []
  | pxs_cons e r x xs : px_expr e x -> px_exprs r xs -> px_exprs (ECons e r) (x :: xs)
  with px_operand : fexpr -> list token -> Prop :=
  | po_wrap e x : px_expr e x -> px_operand e (wrap_toks e x)
  | po_paren e x : px_canon e 1 x -> px_operand e (paren x)                          (* (a) *)
  with px_canon : fexpr -> nat -> list token -> Prop :=
  | pc_same e par x : sh_canon_toks E e par = Ok x -> px_canon e par x
  | pc_atom e par x : atom_expr e = true -> px_expr e x -> px_canon e par x
  | pc_not r par a :
      px_canon r 7 a -> Nat.ltb 7 par = false -> px_canon (FNot r) par (mkTok TNot [33%N] :: a)
  | pc_and l r par a b :
      px_canon l 4 a -> px_canon r 4 b -> Nat.leb 4 par = false ->
      px_canon (FInfix l BAnd r) par (a ++ op_token BAnd :: b)
  | pc_or l r par a b :
      px_canon l 3 a -> px_canon r 3 b -> Nat.leb 3 par = false ->
      px_canon (FInfix l BOr r) par (a ++ op_token BOr :: b)
  | pc_cmp l o r par a b :
      is_logical o = false -> px_operand l a -> px_operand r b -> Nat.leb 7 par = false ->
      px_canon (FInfix l o r) par (a ++ op_token o :: b)
  | pc_paren e par x : px_canon e 1 x -> px_canon e par (paren x)                   (* (a) *)
  with px_sel : selector -> list token -> Prop :=
  | ps_same s x : sh_sel_toks E s = Ok x -> px_sel s x
  | ps_filter e x : px_canon e 1 x -> px_sel (SFilter e) (mkTok TFilter [63%N] :: x)
  | ps_bare k : px_sel (SName k) [mkTok TBare k]                                    (* (b) *)
  with px_sels : sels -> list (list token) -> Prop :=
  | pss_nil : px_sels LNil []
  | pss_cons s r x xs : px_sel s x -> px_sels r xs -> px_sels (LCons s r) (x :: xs)
  with px_seg : segment -> list token -> Prop :=
  | pg_same g x : sh_seg_toks E g = Ok x -> px_seg g x
  | pg_list items xs :
      px_sels items xs ->
      px_seg (GList items) (mkTok TLBracket [91%N] :: sep_by [comma] xs ++ [mkTok TRBracket [93%N]])
  with px_segs : segs -> list token -> Prop :=
  | pp_nil : px_segs PNil []
  | pp_cons g r x xs : px_seg g x -> px_segs r xs -> px_segs (PCons g r) (x ++ xs).

  Definition px_path (p : jpath) (ts : list token) : Prop :=
    exists x, px_segs (p_segs p) x /\ ts = root_token (p_fake p) :: x.

  Inductive px_rest : list (setop * jpath) -> list token -> Prop :=
  | pr_nil : px_rest [] []
  | pr_cons o p rest x xs :
      px_path p x -> px_rest rest xs -> px_rest ((o, p) :: rest) (setop_token o :: x ++ xs).

  Definition px_query (q : query) (ts : list token) : Prop :=
    exists x xs, px_path (q_first q) x /\ px_rest (q_rest q) xs /\ ts = x ++ xs.
End PlusToks.

(* the lexemes of such a token sequence: those of FreeSpell.lexemes_of, and a bare name for TBare *)
Inductive lexemes_plus : list token -> list lexeme -> Prop :=
| lp_nil : lexemes_plus [] []
| lp_bare k ts ls : lexemes_plus ts ls -> lexemes_plus (mkTok TBare k :: ts) (XBare k :: ls)
| lp_app ts1 ls1 ts ls : lexemes_of ts1 ls1 -> lexemes_plus ts ls -> lexemes_plus (ts1 ++ ts) (ls1 ++ ls).

(* FreeSpell.spells_as / spells with the larger class of token sequences *)
Definition spells_plus_as (E : env) (q : query) (t : ustr) (ts : list token) : Prop :=
  exists qs ts1 items wf,
    bracketed qs = bracketed q /\ px_query E qs ts1 /\
    lexemes_plus ts1 (map snd items) /\ chain_ok E items wf /\ t = render items wf /\ ts = chain_toks items.

Definition spells_plus (E : env) (q : query) (t : ustr) : Prop := exists ts, spells_plus_as E q t ts.
