(* RegexSem.v — what the regular expressions of rt/Regex.v mean.  Definitions only.

   The abstract syntax [re] of rt/Regex.v is the whole dialect: the empty language, the empty
   word, one character in / not in a list of ranges, concatenation, alternation, star.  The parser
   writes the other constructs of the pattern text in these:
       a+     RSeq a (RStar a)          a?     RAlt REps a
       .      RSet true [(10,10)]   (any character but "\n";  with DOTALL: RSet true [], any character)
       c, \c  RSet false [(c,c)]        ( ) and (?: )  are transparent (no capture is observable).
   [matches icase r s] is the usual denotational semantics (the language of r contains s); it is the
   semantics of I-Regexp (RFC 9485) on this dialect, which has no anchors, back-references or
   look-around.  [icase] is re.IGNORECASE restricted to the ASCII letters (under that flag the model
   answers only when the pattern and the subject string are ASCII: Python also folds U+212A, U+017F,
   U+0130, U+0131 onto ASCII letters).

   "." : without DOTALL it excludes "\n" only, so it matches "\r".  That is Python's behaviour and the
   code's; I-Regexp's "." is [^\n\r], so "." against a carriage return is outside the dialect on which
   the two agree.  The model follows the code. *)
From Coq Require Import NArith List Bool.
From JP Require Import Base PyStr Regex.
Import ListNotations.
Local Open Scope N_scope.

(* ---- one character against a bracket class ------------------------------------------------- *)

(* c lies in one of the ranges *)
Definition in_class (rs : list (N * N)) (c : N) : Prop :=
  exists lo hi, In (lo, hi) rs /\ lo <= c /\ c <= hi.

(* the ASCII upper-case letters folded onto the lower-case ones *)
Definition ascii_lower (c : N) : N := if (65 <=? c) && (c <=? 90) then c + 32 else c.

(* c and d are the same character, up to ASCII case if [icase] *)
Definition same_char (icase : bool) (c d : N) : Prop :=
  c = d \/ (icase = true /\ ascii_lower c = ascii_lower d).

(* some character of the class is the same as c *)
Definition class_hit (icase : bool) (rs : list (N * N)) (c : N) : Prop :=
  exists d, same_char icase c d /\ in_class rs d.

Definition class_has (icase neg : bool) (rs : list (N * N)) (c : N) : Prop :=
  if neg then ~ class_hit icase rs c else class_hit icase rs c.

(* ---- the language of a regular expression --------------------------------------------------- *)

Inductive matches (icase : bool) : re -> ustr -> Prop :=
| M_eps : matches icase REps []
| M_set neg rs c : class_has icase neg rs c -> matches icase (RSet neg rs) [c]
| M_seq a b s1 s2 : matches icase a s1 -> matches icase b s2 -> matches icase (RSeq a b) (s1 ++ s2)
| M_alt_l a b s : matches icase a s -> matches icase (RAlt a b) s
| M_alt_r a b s : matches icase b s -> matches icase (RAlt a b) s
| M_star_nil a : matches icase (RStar a) []
| M_star_cons a s1 s2 :
    matches icase a s1 -> matches icase (RStar a) s2 -> matches icase (RStar a) (s1 ++ s2).
(* (no clause for RNone: the empty language) *)

(* two expressions with the same language *)
Definition re_equiv (icase : bool) (r r' : re) : Prop := forall s, matches icase r s <-> matches icase r' s.

(* ---- the derived constructs of the pattern syntax ------------------------------------------ *)

Definition re_plus (a : re) : re := RSeq a (RStar a).
Definition re_opt (a : re) : re := RAlt REps a.
Definition re_char (c : N) : re := RSet false [(c, c)].
Definition re_all : re := RStar (RSet true []).          (* any string *)

(* ---- what regex_fullmatch / regex_search compute once the pattern is parsed ----------------- *)

(* compiled.fullmatch(s) *)
Definition regex_fullmatch_ast (icase : bool) (r : re) (s : ustr) : bool := re_matches icase (simp r) s.

(* re.search(pattern, s) is not None *)
Definition regex_search_ast (r : re) (s : ustr) : bool :=
  re_matches false (simp (RSeq re_all (RSeq r re_all))) s.

(* s has a substring in the language of r *)
Definition matches_somewhere (icase : bool) (r : re) (s : ustr) : Prop :=
  exists pre mid post, s = pre ++ mid ++ post /\ matches icase r mid.
