(* Base.v — shared vocabulary of the development: strings as code-point lists,
   the error universe, the result monad, and a few list helpers.
   Stdlib style only (no ssreflect / std++ in this file). *)
From Coq Require Export List Bool Arith ZArith NArith Lia.
Export ListNotations.

(* ---------------------------------------------------------------------- *)
(* Strings: a Python str is a list of code points (lone surrogates allowed). *)

Definition ustr := list N.

Fixpoint ustr_eqb (a b : ustr) : bool :=
  match a, b with
  | [], [] => true
  | x :: a', y :: b' => N.eqb x y && ustr_eqb a' b'
  | _, _ => false
  end.

Lemma ustr_eqb_spec a b : ustr_eqb a b = true <-> a = b.
Proof.
  revert b; induction a as [|x a IH]; intros [|y b]; simpl; split; try congruence; auto.
  - intros H. apply andb_true_iff in H as [H1 H2]. apply N.eqb_eq in H1.
    apply IH in H2. congruence.
  - intros H. injection H as -> ->. rewrite N.eqb_refl. simpl. apply IH. reflexivity.
Qed.

Lemma ustr_eqb_refl a : ustr_eqb a a = true.
Proof. apply ustr_eqb_spec. reflexivity. Qed.

Lemma ustr_eqb_neq a b : ustr_eqb a b = false <-> a <> b.
Proof.
  split.
  - intros H E. apply ustr_eqb_spec in E. congruence.
  - intros H. destruct (ustr_eqb a b) eqn:E; auto. apply ustr_eqb_spec in E. contradiction.
Qed.

Lemma ustr_eqb_sym a b : ustr_eqb a b = ustr_eqb b a.
Proof.
  destruct (ustr_eqb a b) eqn:E.
  - apply ustr_eqb_spec in E. subst. symmetry. apply ustr_eqb_refl.
  - symmetry. apply ustr_eqb_neq. apply ustr_eqb_neq in E. congruence.
Qed.

(* Python's  a < b  on str: code-point lexicographic. *)
Fixpoint ustr_ltb (a b : ustr) : bool :=
  match a, b with
  | [], [] => false
  | [], _ :: _ => true
  | _ :: _, [] => false
  | x :: a', y :: b' => if N.ltb x y then true else if N.eqb x y then ustr_ltb a' b' else false
  end.

(* ---------------------------------------------------------------------- *)
(* Errors.  [EBuiltin] marks every place where CPython would let a built-in
   exception escape from the library; the documented families are the other
   constructors. *)

Inductive builtin_exn :=
| BValueError | BTypeError | BKeyError | BIndexError | BAttributeError
| BOverflowError | BReError | BUnicodeDecodeError | BAssertionError | BJSONDecodeError.

Inductive jsonpath_kind := KSyntax | KType | KIndex | KName | KRecursion.
Inductive pointer_kind := KPtrSyntax   (* JSONPointerError proper *)
                        | KPtrIndex | KPtrKey | KPtrType.       (* resolution errors *)
Inductive relptr_kind := KRelSyntax | KRelIndex.
Inductive patch_kind := KPatch | KPatchTest.

Inductive exn :=
| EJsonPath (k : jsonpath_kind)
| EPointer (k : pointer_kind)
| ERelPointer (k : relptr_kind)
| EPatch (k : patch_kind)
| EBuiltin (b : builtin_exn)
| EOutOfFuel
| EUnsupported.   (* input outside what the model covers; the harness skips such cases *)

Inductive result (A : Type) := Ok (a : A) | Err (e : exn).
Arguments Ok {A} a.
Arguments Err {A} e.

Definition bind {A B} (r : result A) (f : A -> result B) : result B :=
  match r with Ok a => f a | Err e => Err e end.

Notation "x <- r ;; k" := (bind r (fun x => k)) (at level 61, r at next level, right associativity).

Definition is_ok {A} (r : result A) : bool := match r with Ok _ => true | Err _ => false end.

Definition is_resolution_error (e : exn) : bool :=
  match e with EPointer KPtrIndex | EPointer KPtrKey | EPointer KPtrType => true | _ => false end.

Definition is_pointer_error (e : exn) : bool :=
  match e with EPointer _ | ERelPointer _ => true | _ => false end.

Definition is_builtin (e : exn) : bool :=
  match e with EBuiltin _ => true | _ => false end.

(* ---------------------------------------------------------------------- *)
(* List helpers. *)

Fixpoint lookup {A} (k : ustr) (l : list (ustr * A)) : option A :=
  match l with
  | [] => None
  | (k', v) :: l' => if ustr_eqb k k' then Some v else lookup k l'
  end.

Fixpoint nth_opt {A} (l : list A) (n : nat) : option A :=
  match l, n with
  | [], _ => None
  | x :: _, O => Some x
  | _ :: l', S n' => nth_opt l' n'
  end.

Lemma nth_opt_nth_error {A} (l : list A) n : nth_opt l n = nth_error l n.
Proof. revert n; induction l; intros [|n]; simpl; auto. Qed.

Fixpoint map_result {A B} (f : A -> result B) (l : list A) : result (list B) :=
  match l with
  | [] => Ok []
  | x :: l' => y <- f x ;; ys <- map_result f l' ;; Ok (y :: ys)
  end.

Definition option_bind {A B} (o : option A) (f : A -> option B) : option B :=
  match o with Some a => f a | None => None end.

Fixpoint last_opt {A} (l : list A) : option A :=
  match l with
  | [] => None
  | [x] => Some x
  | _ :: l' => last_opt l'
  end.

Fixpoint seq_from (start : nat) (len : nat) : list nat :=
  match len with O => [] | S n => start :: seq_from (S start) n end.

Fixpoint enumerate_from {A} (i : nat) (l : list A) : list (nat * A) :=
  match l with [] => [] | x :: l' => (i, x) :: enumerate_from (S i) l' end.
Definition enumerate {A} (l : list A) := enumerate_from 0 l.
