(* PyStr.v — the CPython str / int behaviours the library relies on, as total
   Gallina functions over code-point lists.  Each has a micro-correspondence
   test against the running interpreter (harness/rt_micro.py). *)
From JP Require Export Base.

Definition cp (n : N) : N := n.
Definition ch_slash : N := 47.      (* / *)
Definition ch_tilde : N := 126.     (* ~ *)
Definition ch_hash : N := 35.       (* # *)
Definition ch_minus : N := 45.      (* - *)
Definition ch_plus : N := 43.       (* + *)
Definition ch_0 : N := 48.
Definition ch_1 : N := 49.
Definition ch_9 : N := 57.
Definition ch_backslash : N := 92.
Definition ch_underscore : N := 95.

Definition is_ascii_digit (c : N) : bool := N.leb 48 c && N.leb c 57.

(* str.isspace() for a single code point (Unicode White_Space + \x1c..\x1f) *)
Definition py_isspace (c : N) : bool :=
  (N.leb 9 c && N.leb c 13) || (N.leb 28 c && N.leb c 32) || N.eqb c 133 || N.eqb c 160 ||
  N.eqb c 5760 || (N.leb 8192 c && N.leb c 8202) || N.eqb c 8232 || N.eqb c 8233 ||
  N.eqb c 8239 || N.eqb c 8287 || N.eqb c 12288.

Fixpoint lstrip (s : ustr) : ustr :=
  match s with
  | c :: s' => if py_isspace c then lstrip s' else s
  | [] => []
  end.

Definition rstrip (s : ustr) : ustr := rev (lstrip (rev s)).
Definition strip (s : ustr) : ustr := rstrip (lstrip s).

Definition starts_with_ch (c : N) (s : ustr) : bool :=
  match s with x :: _ => N.eqb x c | [] => false end.

Fixpoint starts_with (p s : ustr) : bool :=
  match p, s with
  | [], _ => true
  | x :: p', y :: s' => N.eqb x y && starts_with p' s'
  | _ :: _, [] => false
  end.

(* s.split(sep) for a one-character separator: always at least one field *)
Fixpoint split_on (sep : N) (s : ustr) : list ustr :=
  match s with
  | [] => [[]]
  | c :: s' =>
      if N.eqb c sep then [] :: split_on sep s'
      else match split_on sep s' with
           | f :: fs => (c :: f) :: fs
           | [] => [[c]]     (* unreachable: split_on never returns [] *)
           end
  end.

(* sep.join(fields) for a one-character separator *)
Fixpoint join_with (sep : N) (fs : list ustr) : ustr :=
  match fs with
  | [] => []
  | [f] => f
  | f :: fs' => f ++ sep :: join_with sep fs'
  end.

(* s.replace(a+b, [r]) for a two-character pattern a b: left to right, non-overlapping *)
Fixpoint replace2 (a b : N) (r : ustr) (s : ustr) : ustr :=
  match s with
  | x :: ((y :: s'') as s') =>
      if N.eqb x a && N.eqb y b then r ++ replace2 a b r s''
      else x :: replace2 a b r s'
  | _ => s
  end.

(* s.replace(a, r) for a one-character pattern *)
Fixpoint replace1 (a : N) (r : ustr) (s : ustr) : ustr :=
  match s with
  | [] => []
  | x :: s' => if N.eqb x a then r ++ replace1 a r s' else x :: replace1 a r s'
  end.

Definition contains_ch (c : N) (s : ustr) : bool := existsb (N.eqb c) s.

(* ---------------------------------------------------------------------- *)
(* Decimal text <-> integers. *)

Definition digit_val (c : N) : Z := Z.of_N c - 48.
Definition digit_ch (d : Z) : N := Z.to_N (d + 48).

(* value of a string of ASCII digits, most significant first *)
Definition dec_value (s : ustr) : Z := fold_left (fun acc c => 10 * acc + digit_val c)%Z s 0%Z.

(* decimal spelling of a non-negative integer, by fuel = number of binary digits + 1 *)
Fixpoint dec_digits_fuel (fuel : nat) (n : Z) (acc : ustr) : ustr :=
  match fuel with
  | O => acc
  | S f =>
      if Z.ltb n 10 then digit_ch n :: acc
      else dec_digits_fuel f (n / 10) (digit_ch (n mod 10) :: acc)
  end.

Definition dec_of_nonneg (n : Z) : ustr := dec_digits_fuel (S (Z.to_nat (Z.log2 n))) n [].

(* str(int) *)
Definition str_of_Z (z : Z) : ustr :=
  if Z.ltb z 0 then ch_minus :: dec_of_nonneg (- z) else dec_of_nonneg z.

Definition all_digits (s : ustr) : bool :=
  match s with [] => false | _ => forallb is_ascii_digit s end.

(* canonical non-negative decimal: "0" or a non-empty digit string not starting with 0 *)
Definition canonical_nonneg (s : ustr) : bool :=
  match s with
  | [] => false
  | [c] => is_ascii_digit c
  | c :: _ => is_ascii_digit c && negb (N.eqb c 48) && forallb is_ascii_digit s
  end.

(* the regular expression  0|-?[1-9][0-9]*  (RE_INDEX in pointer.py), fullmatch *)
Definition re_index_match (s : ustr) : bool :=
  match s with
  | [c] => is_ascii_digit c
  | c :: s' =>
      if N.eqb c ch_minus
      then match s' with
           | d :: _ => is_ascii_digit d && negb (N.eqb d 48) && forallb is_ascii_digit s'
           | [] => false
           end
      else is_ascii_digit c && negb (N.eqb c 48) && forallb is_ascii_digit s
  | [] => false
  end.

(* int(s) for a string accepted by re_index_match *)
Definition int_of_index_text (s : ustr) : Z :=
  match s with
  | c :: s' => if N.eqb c ch_minus then (- dec_value s')%Z else dec_value s
  | [] => 0%Z
  end.

(* Python's liberal int(str), decided for ASCII input only:
     None          = input outside what this model covers (non-ASCII characters)
     Some None     = ValueError
     Some (Some z) = the integer
   Grammar: strip whitespace; optional sign; digits with single underscores between digits. *)
Definition is_ascii (s : ustr) : bool := forallb (fun c => N.ltb c 128) s.

Fixpoint digits_underscores (s : ustr) (prev_digit : bool) (acc : Z) : option Z :=
  match s with
  | [] => if prev_digit then Some acc else None
  | c :: s' =>
      if is_ascii_digit c then digits_underscores s' true (10 * acc + digit_val c)%Z
      else if N.eqb c ch_underscore then (if prev_digit then digits_underscores s' false acc else None)
      else None
  end.

Definition py_int (s : ustr) : option (option Z) :=
  if negb (is_ascii s) then None
  else
    let t := strip s in
    match t with
    | [] => Some None
    | c :: t' =>
        if N.eqb c ch_minus then Some (option_map Z.opp (digits_underscores t' false 0%Z))
        else if N.eqb c ch_plus then Some (digits_underscores t' false 0%Z)
        else Some (digits_underscores t false 0%Z)
    end.
