(* PyJsonStr.v — json.dumps(s, ensure_ascii=False) for a str, without the surrounding quotes,
   and jsonpath/serialize.py : canonical_string. *)
From JP Require Export Base PyStr.

Definition hex_digit (n : N) : N := if N.ltb n 10 then (48 + n)%N else (87 + n)%N.   (* lower case *)

(* one character as json.dumps writes it *)
Definition dumps_char (c : N) : ustr :=
  if N.eqb c 34 then [92; 34]%N                (* "  ->  \"  *)
  else if N.eqb c 92 then [92; 92]%N           (* \  ->  \\  *)
  else if N.eqb c 10 then [92; 110]%N          (* \n *)
  else if N.eqb c 13 then [92; 114]%N          (* \r *)
  else if N.eqb c 9 then [92; 116]%N           (* \t *)
  else if N.eqb c 8 then [92; 98]%N            (* \b *)
  else if N.eqb c 12 then [92; 102]%N          (* \f *)
  else if N.ltb c 32 then [92; 117; 48; 48; hex_digit (c / 16); hex_digit (c mod 16)]%N   (* \u00xx *)
  else [c].

Definition dumps_body (s : ustr) : ustr := flat_map dumps_char s.

(* canonical_string: dumps body, then  \" -> "  and  ' -> \' , wrapped in single quotes *)
Definition canonical_string (s : ustr) : ustr :=
  39%N :: replace1 39%N [92; 39]%N (replace2 92%N 34%N [34%N] (dumps_body s)) ++ [39%N].
