(* PyJsonStr.v — json.dumps(s, ensure_ascii=False) for a str, without the surrounding quotes,
   and jsonpath/serialize.py : canonical_string. *)
From JP Require Export Base PyStr.

Definition hex_digit (n : N) : N := if N.ltb n 10 then (48 + n)%N else (87 + n)%N.   (* lower case *)

(* one character as json.dumps writes it *)
Definition dumps_char (c : N) : ustr :=
  if N.eqb c 34 then [92; 34]%N                (* "  ->  \"  *)
  else if N.eqb c 92 then [92; 92]%N           (* \  ->  \\  *)
  else if N.eqb c 10 then [92; 110]%N          (* \n *)
  else if N.eqb c 13 then [92; 114]%N          (* \r *)
  else if N.eqb c 9 then [92; 116]%N           (* \t *)
  else if N.eqb c 8 then [92; 98]%N            (* \b *)
  else if N.eqb c 12 then [92; 102]%N          (* \f *)
  else if N.ltb c 32 then [92; 117; 48; 48; hex_digit (c / 16); hex_digit (c mod 16)]%N   (* \u00xx *)
  else [c].

Definition dumps_body (s : ustr) : ustr := flat_map dumps_char s.

(* canonical_string: dumps body, then  \" -> "  and  ' -> \' , wrapped in single quotes *)
Definition canonical_string (s : ustr) : ustr :=
  39%N :: replace1 39%N [92; 39]%N (replace2 92%N 34%N [34%N] (dumps_body s)) ++ [39%N].

(* ---------------------------------------------------------------------- *)
(* json.loads('"' + body + '"') for a str: CPython's py_scanstring with strict=True.
   None = JSONDecodeError (unterminated, bare quote followed by extra data, control
   character, invalid escape). *)

Definition hex_val (c : N) : option N :=
  if is_ascii_digit c then Some (c - 48)%N
  else if N.leb 97 c && N.leb c 102 then Some (c - 87)%N
  else if N.leb 65 c && N.leb c 70 then Some (c - 55)%N
  else None.

Definition hex4 (s : ustr) : option (N * ustr) :=
  match s with
  | a :: b :: c :: d :: r =>
      match hex_val a, hex_val b, hex_val c, hex_val d with
      | Some x, Some y, Some z, Some w => Some ((x * 4096 + y * 256 + z * 16 + w)%N, r)
      | _, _, _, _ => None
      end
  | _ => None
  end.

Fixpoint loads_body (fuel : nat) (s : ustr) : option ustr :=
  match fuel with
  | O => None
  | S f =>
      match s with
      | [] => Some []
      | c :: s' =>
          if N.eqb c 34 then None                      (* the string ends here: extra data follows *)
          else if N.ltb c 32 then None                 (* invalid control character *)
          else if N.eqb c 92 then
            match s' with
            | [] => None
            | e :: s'' =>
                let simple (x : N) := option_map (cons x) (loads_body f s'') in
                if N.eqb e 34 then simple 34%N
                else if N.eqb e 92 then simple 92%N
                else if N.eqb e 47 then simple 47%N
                else if N.eqb e 98 then simple 8%N
                else if N.eqb e 102 then simple 12%N
                else if N.eqb e 110 then simple 10%N
                else if N.eqb e 114 then simple 13%N
                else if N.eqb e 116 then simple 9%N
                else if N.eqb e 117 then
                  match hex4 s'' with
                  | None => None
                  | Some (u, r) =>
                      (* a high surrogate followed by \u + low surrogate is one code point *)
                      if N.leb 55296 u && N.leb u 56319 then
                        match r with
                        | 92%N :: 117%N :: r' =>
                            match hex4 r' with
                            | Some (u2, r'') =>
                                if N.leb 56320 u2 && N.leb u2 57343
                                then option_map (cons (65536 + (u - 55296) * 1024 + (u2 - 56320))%N) (loads_body f r'')
                                else option_map (cons u) (loads_body f r)
                            | None => option_map (cons u) (loads_body f r)
                            end
                        | _ => option_map (cons u) (loads_body f r)
                        end
                      else option_map (cons u) (loads_body f r)
                  end
                else None
            end
          else option_map (cons c) (loads_body f s')
      end
  end.

Definition json_loads_str (body : ustr) : option ustr := loads_body (S (length body)) body.
