(* Regex.v — an executable matcher for the common dialect of Python `re` and I-Regexp:
   literals, '.', bracket classes with ranges and negation, ( ) and (?: ) groups, | * + ?.
   Brzozowski derivatives (total, structural).  Anything else is reported as Unsupported
   so that the harness skips the case; an ill-formed pattern is Invalid (re.error).
   This instantiates the regex oracle of model/Eval.v for execution only; no theorem
   depends on it. *)
From JP Require Import Base PyStr.

Inductive re :=
| RNone | REps
| RSet (neg : bool) (ranges : list (N * N))      (* one character in / not in the ranges *)
| RSeq (a b : re) | RAlt (a b : re) | RStar (a : re).

Fixpoint nullable (r : re) : bool :=
  match r with
  | RNone => false | REps => true | RSet _ _ => false
  | RSeq a b => nullable a && nullable b
  | RAlt a b => nullable a || nullable b
  | RStar _ => true
  end.

Definition in_ranges (c : N) (rs : list (N * N)) : bool :=
  existsb (fun r => N.leb (fst r) c && N.leb c (snd r)) rs.

Definition fold_case (c : N) : N := if N.leb 65 c && N.leb c 90 then (c + 32)%N else c.

Definition set_matches (icase : bool) (neg : bool) (rs : list (N * N)) (c : N) : bool :=
  let hit := if icase
             then in_ranges c rs || in_ranges (fold_case c) rs ||
                  (if N.leb 97 c && N.leb c 122 then in_ranges (c - 32)%N rs else false)
             else in_ranges c rs in
  if neg then negb hit else hit.

Fixpoint deriv (icase : bool) (c : N) (r : re) : re :=
  match r with
  | RNone | REps => RNone
  | RSet neg rs => if set_matches icase neg rs c then REps else RNone
  | RSeq a b =>
      let d := RSeq (deriv icase c a) b in
      if nullable a then RAlt d (deriv icase c b) else d
  | RAlt a b => RAlt (deriv icase c a) (deriv icase c b)
  | RStar a => RSeq (deriv icase c a) (RStar a)
  end.

(* light simplification keeps the derivative small *)
Fixpoint simp (r : re) : re :=
  match r with
  | RSeq a b =>
      match simp a, simp b with
      | RNone, _ | _, RNone => RNone
      | REps, b' => b'
      | a', REps => a'
      | a', b' => RSeq a' b'
      end
  | RAlt a b =>
      match simp a, simp b with
      | RNone, b' => b'
      | a', RNone => a'
      | a', b' => RAlt a' b'
      end
  | RStar a => match simp a with RNone | REps => REps | a' => RStar a' end
  | _ => r
  end.

Fixpoint re_matches (icase : bool) (r : re) (s : ustr) : bool :=
  match s with
  | [] => nullable r
  | c :: s' => re_matches icase (simp (deriv icase c r)) s'
  end.

(* ---- parser ------------------------------------------------------------------ *)

Inductive parsed (A : Type) := POk (a : A) (rest : ustr) | PInvalid | PUnsupported.
Arguments POk {A}. Arguments PInvalid {A}. Arguments PUnsupported {A}.

Definition is_alnum (c : N) : bool :=
  is_ascii_digit c || (N.leb 65 c && N.leb c 90) || (N.leb 97 c && N.leb c 122).

Definition any_char (dotall : bool) : re :=
  if dotall then RSet true [] else RSet true [(10%N, 10%N)].

(* the inside of [...] after the optional ^ : literal characters, escaped characters and ranges a-b, \a-b *)
Fixpoint parse_class (fuel : nat) (s : ustr) (acc : list (N * N)) : parsed (list (N * N)) :=
  match fuel with
  | O => PInvalid
  | S f =>
      match s with
      | [] => PInvalid
      | c :: s' =>
          if N.eqb c 93 then (match acc with [] => PUnsupported | _ => POk acc s' end)
          else if N.eqb c 92 then
            match s' with
            | e :: s'' =>
                if is_alnum e then PUnsupported
                else match s'' with
                     | d :: e2 :: s3 =>
                         (* an escaped character can begin a range, as a raw one does: [\.-z] *)
                         if N.eqb d 45 && negb (N.eqb e2 93) then
                           if N.eqb e2 92 then PUnsupported
                           else if N.ltb e2 e then PInvalid else parse_class f s3 ((e, e2) :: acc)
                         else parse_class f s'' ((e, e) :: acc)
                     | _ => parse_class f s'' ((e, e) :: acc)
                     end
            | [] => PInvalid
            end
          else if N.eqb c 91 then PUnsupported
          else match s' with
               | d :: e :: s'' =>
                   if N.eqb d 45 && negb (N.eqb e 93) then
                     if N.eqb e 92 then PUnsupported
                     else if N.ltb e c then PInvalid else parse_class f s'' ((c, e) :: acc)
                   else parse_class f s' ((c, c) :: acc)
               | _ => parse_class f s' ((c, c) :: acc)
               end
      end
  end.

Definition is_meta (c : N) : bool :=
  N.eqb c 42 || N.eqb c 43 || N.eqb c 63 || N.eqb c 124 || N.eqb c 40 || N.eqb c 41.

(* alt := seq ('|' seq)* ; seq := (atom quant?)* ; atom := '(' alt ')' | '[' class ']' | '.' | '\' c | c *)
Fixpoint parse_alt (fuel : nat) (dotall : bool) (s : ustr) : parsed re :=
  match fuel with
  | O => PInvalid
  | S f =>
      let fix parse_seq (g : nat) (s : ustr) (acc : re) : parsed re :=
        match g with
        | O => PInvalid
        | S g' =>
            match s with
            | [] => POk acc []
            | c :: s' =>
                if N.eqb c 124 || N.eqb c 41 then POk acc s
                else
                  let atom : parsed re :=
                    if N.eqb c 40 then
                      let body := match s' with
                                  | 63%N :: 58%N :: s'' => Some s''
                                  | 63%N :: _ => None
                                  | _ => Some s'
                                  end in
                      match body with
                      | None => PUnsupported
                      | Some b =>
                          match parse_alt f dotall b with
                          | POk r (41%N :: rest) => POk r rest
                          | POk _ _ => PInvalid
                          | PInvalid => PInvalid
                          | PUnsupported => PUnsupported
                          end
                      end
                    else if N.eqb c 91 then
                      match s' with
                      | 94%N :: s'' => match parse_class (S (length s'')) s'' [] with
                                       | POk rs rest => POk (RSet true rs) rest
                                       | PInvalid => PInvalid | PUnsupported => PUnsupported end
                      | _ => match parse_class (S (length s')) s' [] with
                             | POk rs rest => POk (RSet false rs) rest
                             | PInvalid => PInvalid | PUnsupported => PUnsupported end
                      end
                    else if N.eqb c 46 then POk (any_char dotall) s'
                    else if N.eqb c 92 then
                      match s' with
                      | e :: s'' => if is_alnum e then PUnsupported else POk (RSet false [(e, e)]) s''
                      | [] => PInvalid
                      end
                    else if N.eqb c 42 || N.eqb c 43 || N.eqb c 63 then PInvalid      (* nothing to repeat *)
                    else if N.eqb c 94 || N.eqb c 36 || N.eqb c 123 || N.eqb c 125 then PUnsupported
                    else POk (RSet false [(c, c)]) s' in
                  match atom with
                  | PInvalid => PInvalid
                  | PUnsupported => PUnsupported
                  | POk a rest =>
                      match rest with
                      | q :: rest' =>
                          if N.eqb q 42 || N.eqb q 43 || N.eqb q 63 then
                            (* a second quantifier character (lazy / possessive / stacked) is outside the dialect *)
                            match rest' with
                            | q2 :: _ => if N.eqb q2 42 || N.eqb q2 43 || N.eqb q2 63 then PUnsupported
                                         else parse_seq g' rest' (RSeq acc (if N.eqb q 42 then RStar a
                                                                           else if N.eqb q 43 then RSeq a (RStar a)
                                                                           else RAlt REps a))
                            | [] => parse_seq g' rest' (RSeq acc (if N.eqb q 42 then RStar a
                                                                 else if N.eqb q 43 then RSeq a (RStar a)
                                                                 else RAlt REps a))
                            end
                          else if N.eqb q 123 then PUnsupported
                          else parse_seq g' rest (RSeq acc a)
                      | [] => POk (RSeq acc a) []
                      end
                  end
            end
        end in
      match parse_seq (S (length s)) s REps with
      | POk r (124%N :: rest) =>
          match parse_alt f dotall rest with
          | POk r2 rest2 => POk (RAlt r r2) rest2
          | PInvalid => PInvalid
          | PUnsupported => PUnsupported
          end
      | other => other
      end
  end.

Definition parse_regex (dotall : bool) (s : ustr) : parsed re :=
  match parse_alt (S (length s)) dotall s with
  | POk r [] => POk r []
  | POk _ _ => PInvalid          (* unbalanced ')' *)
  | other => other
  end.

(* results: Some (Some b) = matched / not; Some None = pattern does not compile; None = unsupported *)
Definition regex_fullmatch (pattern : ustr) (icase dotall : bool) (s : ustr) : option (option bool) :=
  (* re.IGNORECASE folds some non-ASCII characters onto ASCII letters (U+212A, U+017F, U+0130, U+0131);
     the matcher folds the ASCII letters only, so under that flag it answers for ASCII text only *)
  if icase && (negb (is_ascii pattern) || negb (is_ascii s)) then None
  else match parse_regex dotall pattern with
       | POk r _ => Some (Some (re_matches icase (simp r) s))
       | PInvalid => Some None
       | PUnsupported => None
       end.

Definition regex_search (pattern : ustr) (s : ustr) : option (option bool) :=
  match parse_regex false pattern with
  | POk r _ =>
      let all := RStar (RSet true []) in
      Some (Some (re_matches false (simp (RSeq all (RSeq r all))) s))
  | PInvalid => Some None
  | PUnsupported => None
  end.
