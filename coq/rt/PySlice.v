(* PySlice.v — CPython slice.indices(len) (PySlice_AdjustIndices) and range(). *)
From JP Require Export Base.

(* slice(start, stop, step).indices(len) for step <> 0 *)
Definition slice_indices (len : Z) (start stop step : option Z) : Z * Z * Z :=
  let step := match step with Some s => s | None => 1%Z end in
  let neg := Z.ltb step 0 in
  let lower := if neg then (-1)%Z else 0%Z in
  let upper := if neg then (len - 1)%Z else len in
  let adj (v : option Z) (dflt : Z) : Z :=
    match v with
    | None => dflt
    | Some v =>
        if Z.ltb v 0 then Z.max (v + len) lower
        else Z.min v upper
    end in
  let start' := adj start (if neg then upper else lower) in
  let stop' := adj stop (if neg then lower else upper) in
  (start', stop', step).

(* len(range(start, stop, step)) *)
Definition range_len (start stop step : Z) : Z :=
  if Z.ltb 0 step then
    (if Z.ltb start stop then (stop - start - 1) / step + 1 else 0)%Z
  else if Z.ltb step 0 then
    (if Z.ltb stop start then (start - stop - 1) / (- step) + 1 else 0)%Z
  else 0%Z.

(* list(range(start, stop, step)) *)
Fixpoint range_from (n : nat) (cur step : Z) : list Z :=
  match n with O => [] | S n' => cur :: range_from n' (cur + step)%Z step end.

Definition py_range (start stop step : Z) : list Z :=
  range_from (Z.to_nat (range_len start stop step)) start step.

(* the indices a slice selects on a sequence of length len; [] for step = 0 *)
Definition slice_positions (len : nat) (start stop step : option Z) : list nat :=
  match step with
  | Some 0%Z => []
  | _ =>
      let '(s, e, st) := slice_indices (Z.of_nat len) start stop step in
      map Z.to_nat (py_range s e st)
  end.
