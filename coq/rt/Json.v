(* Json.v — JSON values as Python sees them after json.loads, and the two
   notions of equality that matter: Python's [==] (booleans are integers,
   recursively) and the JSON / RFC one (booleans and numbers are disjoint). *)
From JP Require Export Base.

(* Numbers: exact rationals plus the int/float tag (Python compares int and
   float exactly; NaN and infinities are not JSON). *)
Record num := mkNum { n_float : bool; n_num : Z; n_den : positive }.

Definition num_of_Z (z : Z) : num := mkNum false z 1.
Definition num_eqb (a b : num) : bool :=
  Z.eqb (n_num a * Zpos (n_den b)) (n_num b * Zpos (n_den a)).
Definition num_ltb (a b : num) : bool :=
  Z.ltb (n_num a * Zpos (n_den b)) (n_num b * Zpos (n_den a)).
Definition num_of_bool (b : bool) : num := num_of_Z (if b then 1 else 0).
Definition num_is_zero (a : num) : bool := Z.eqb (n_num a) 0.

Inductive json :=
| JNull
| JBool (b : bool)
| JNum (n : num)
| JStr (s : ustr)
| JArr (l : list json)
| JObj (l : list (ustr * json)).   (* members in document order (dict insertion order) *)

(* Nested induction principle. *)
Section JsonInd.
  Variable P : json -> Prop.
  Hypothesis Hnull : P JNull.
  Hypothesis Hbool : forall b, P (JBool b).
  Hypothesis Hnum : forall n, P (JNum n).
  Hypothesis Hstr : forall s, P (JStr s).
  Hypothesis Harr : forall l, Forall P l -> P (JArr l).
  Hypothesis Hobj : forall l, Forall (fun kv => P (snd kv)) l -> P (JObj l).

  Fixpoint json_ind' (j : json) : P j :=
    match j with
    | JNull => Hnull
    | JBool b => Hbool b
    | JNum n => Hnum n
    | JStr s => Hstr s
    | JArr l => Harr l ((fix go (l : list json) : Forall P l :=
                           match l with
                           | [] => Forall_nil _
                           | x :: l' => Forall_cons x (json_ind' x) (go l')
                           end) l)
    | JObj l => Hobj l ((fix go (l : list (ustr * json)) : Forall (fun kv => P (snd kv)) l :=
                           match l with
                           | [] => Forall_nil _
                           | kv :: l' => Forall_cons kv (json_ind' (snd kv)) (go l')
                           end) l)
    end.
End JsonInd.

Definition is_container (j : json) : bool :=
  match j with JArr _ | JObj _ => true | _ => false end.

(* keys pairwise distinct at every level *)
Fixpoint keys_distinct (l : list ustr) : bool :=
  match l with
  | [] => true
  | k :: l' => negb (existsb (ustr_eqb k) l') && keys_distinct l'
  end.

Fixpoint wf_json (j : json) : bool :=
  match j with
  | JArr l => forallb wf_json l
  | JObj l => keys_distinct (map fst l) &&
              (fix go (l : list (ustr * json)) : bool :=
                 match l with [] => true | (_, v) :: l' => wf_json v && go l' end) l
  | _ => true
  end.

(* ---------------------------------------------------------------------- *)
(* Python's ==  on values built from dict/list/str/int/float/bool/None. *)

Fixpoint py_eq (a b : json) : bool :=
  match a, b with
  | JNull, JNull => true
  | JBool x, JBool y => Bool.eqb x y
  | JBool x, JNum n => num_eqb (num_of_bool x) n
  | JNum n, JBool x => num_eqb n (num_of_bool x)
  | JNum x, JNum y => num_eqb x y
  | JStr x, JStr y => ustr_eqb x y
  | JArr x, JArr y =>
      (fix go (l1 l2 : list json) : bool :=
         match l1, l2 with
         | [], [] => true
         | u :: l1', v :: l2' => py_eq u v && go l1' l2'
         | _, _ => false
         end) x y
  | JObj x, JObj y =>
      Nat.eqb (length x) (length y) &&
      (fix go (l1 : list (ustr * json)) : bool :=
         match l1 with
         | [] => true
         | (k, u) :: l1' =>
             match lookup k y with
             | Some v => py_eq u v && go l1'
             | None => false
             end
         end) x
  | _, _ => false
  end.

(* JSON equality (RFC 9535 2.3.5.2.2 / RFC 6902 4.6): same shape as py_eq but a
   boolean is never equal to a number. *)
Fixpoint json_eq (a b : json) : bool :=
  match a, b with
  | JNull, JNull => true
  | JBool x, JBool y => Bool.eqb x y
  | JNum x, JNum y => num_eqb x y
  | JStr x, JStr y => ustr_eqb x y
  | JArr x, JArr y =>
      (fix go (l1 l2 : list json) : bool :=
         match l1, l2 with
         | [], [] => true
         | u :: l1', v :: l2' => json_eq u v && go l1' l2'
         | _, _ => false
         end) x y
  | JObj x, JObj y =>
      Nat.eqb (length x) (length y) &&
      (fix go (l1 : list (ustr * json)) : bool :=
         match l1 with
         | [] => true
         | (k, u) :: l1' =>
             match lookup k y with
             | Some v => json_eq u v && go l1'
             | None => false
             end
         end) x
  | _, _ => false
  end.

(* Python truthiness bool(x). *)
Definition py_truthy (j : json) : bool :=
  match j with
  | JNull => false
  | JBool b => b
  | JNum n => negb (num_is_zero n)
  | JStr s => match s with [] => false | _ => true end
  | JArr l => match l with [] => false | _ => true end
  | JObj l => match l with [] => false | _ => true end
  end.

(* ---------------------------------------------------------------------- *)
(* Locations. *)

Inductive part := PKey (k : ustr) | PIdx (i : nat).
Definition loc := list part.

Definition part_eqb (a b : part) : bool :=
  match a, b with
  | PKey x, PKey y => ustr_eqb x y
  | PIdx x, PIdx y => Nat.eqb x y
  | _, _ => false
  end.

Lemma part_eqb_spec a b : part_eqb a b = true <-> a = b.
Proof.
  destruct a, b; simpl; split; try congruence.
  - intros H. apply ustr_eqb_spec in H. congruence.
  - intros H. injection H as ->. apply ustr_eqb_refl.
  - intros H. apply Nat.eqb_eq in H. congruence.
  - intros H. injection H as ->. apply Nat.eqb_refl.
Qed.

Fixpoint loc_eqb (a b : loc) : bool :=
  match a, b with
  | [], [] => true
  | x :: a', y :: b' => part_eqb x y && loc_eqb a' b'
  | _, _ => false
  end.

Lemma loc_eqb_spec a b : loc_eqb a b = true <-> a = b.
Proof.
  revert b; induction a as [|x a IH]; intros [|y b]; simpl; split; try congruence; auto.
  - intros H. apply andb_true_iff in H as [H1 H2]. apply part_eqb_spec in H1. apply IH in H2. congruence.
  - intros H. injection H as -> ->. apply andb_true_iff. split. apply part_eqb_spec; auto. apply IH; auto.
Qed.

Definition step (j : json) (p : part) : option json :=
  match p, j with
  | PKey k, JObj l => lookup k l
  | PIdx i, JArr l => nth_opt l i
  | _, _ => None
  end.

Fixpoint node_at (j : json) (l : loc) : option json :=
  match l with
  | [] => Some j
  | p :: l' => match step j p with Some c => node_at c l' | None => None end
  end.

Lemma node_at_app j l1 l2 :
  node_at j (l1 ++ l2) = match node_at j l1 with Some c => node_at c l2 | None => None end.
Proof.
  revert j; induction l1 as [|p l1 IH]; intros j; simpl; auto.
  destruct (step j p); auto.
Qed.

(* children of a container in document order, with the part that reaches each *)
Definition children (j : json) : list (part * json) :=
  match j with
  | JArr l => map (fun iv => (PIdx (fst iv), snd iv)) (enumerate l)
  | JObj l => map (fun kv => (PKey (fst kv), snd kv)) l
  | _ => []
  end.
