(* C14 — JSON Pointer text, tokens and navigation operations are mutually consistent.
   Statements only; proofs live in proofs/PointerProofs.v. *)
From JP Require Import Base Json PyStr Pointer Rfc6901 PointerDomain PointerProofs.

Definition mode_ok (mode : bool) (s : ustr) : Prop := mode = false \/ no_backslash s = true.

(* parsing and printing returns the same string; the parsed tokens are the RFC 6901 tokens *)
Theorem C14_print_parse :
  forall (mode : bool) (s : ustr),
    rfc6901_syntax s = true -> mode_ok mode s ->
    tokens_within_limits (rfc_tokens s) = true ->
    exists p, Pointer.parse mode s = Ok p /\ encode p = s /\ tokens p = rfc_tokens s.
Proof. exact PointerProofs.print_parse. Qed.
Print Assumptions C14_print_parse.

(* equality is equality of reference-token sequences, however the pointers were built *)
Theorem C14_eq :
  forall (p1 p2 : pointer), ptr_eqb p1 p2 = true <-> tokens p1 = tokens p2.
Proof. exact PointerProofs.ptr_eqb_spec. Qed.
Print Assumptions C14_eq.

(* any pointer value prints as the RFC 6901 spelling of its tokens *)
Theorem C14_encode :
  forall (p : pointer), encode p = rfc_spell (tokens p).
Proof. exact PointerProofs.encode_spell. Qed.
Print Assumptions C14_encode.

(* from_parts keeps the tokens (and therefore prints their RFC 6901 spelling) *)
Theorem C14_from_parts :
  forall (mode : bool) (parts : pointer),
    (mode = false \/ forallb no_backslash (tokens parts) = true) ->
    exists q, from_parts mode parts = Ok q /\ tokens q = tokens parts /\
              encode q = rfc_spell (tokens parts).
Proof. exact PointerProofs.from_parts_spec. Qed.
Print Assumptions C14_from_parts.

(* parsing the RFC 6901 spelling of a token list gives a pointer with those tokens
   (hence equal, by C14_eq, to the pointer built from the token list) *)
Theorem C14_spell_parse :
  forall (mode : bool) (ts : list ustr),
    (mode = false \/ forallb no_backslash ts = true) ->
    tokens_within_limits ts = true ->
    exists p, Pointer.parse mode (rfc_spell ts) = Ok p /\ tokens p = ts.
Proof. exact PointerProofs.spell_parse. Qed.
Print Assumptions C14_spell_parse.

(* a token in escaped form that may be joined: "~" only as ~0/~1, no "/", no backslash,
   no leading blank, within the integer limits *)
Definition join_token_ok (t : ustr) : bool :=
  tilde_ok t && negb (contains_ch ch_slash t) && no_backslash t && no_leading_blank t &&
  token_within_limits (unescape t).

(* joining t onto p: the result extends p by exactly the token t; its parent is p; it is
   relative to p; it resolves to what resolving p and then stepping by t resolves to *)
Theorem C14_join :
  forall (p : pointer) (t : ustr) (d : json),
    join_token_ok t = true ->
    exists x, truediv p t = Ok (p ++ [x]) /\ join p [t] = Ok (p ++ [x]) /\
              part_text x = unescape t /\
              parent (p ++ [x]) = p /\
              is_relative_to (p ++ [x]) p = true /\
              resolve (p ++ [x]) d = (c <- resolve p d ;; getitem c x).
Proof. exact PointerProofs.join_spec. Qed.
Print Assumptions C14_join.

(* the parent of the root pointer is the root pointer *)
Theorem C14_parent_root : parent [] = [].
Proof. exact PointerProofs.parent_root. Qed.

(* a joined part that starts with a slash replaces the pointer *)
Theorem C14_slash_replaces :
  forall (p : pointer) (s : ustr),
    starts_with_ch ch_slash s = true -> no_backslash s = true ->
    truediv p s = Pointer.parse false s.
Proof. exact PointerProofs.slash_replaces. Qed.
Print Assumptions C14_slash_replaces.

Example C14_example :
  let s := [47; 126; 49; 47; 48; 49; 47; 45; 49; 47; 233]%N in      (* /~1/01/-1/é *)
  rfc6901_syntax s = true /\
  Pointer.parse true s = Ok [PStr [47%N]; PStr [48%N; 49%N]; PInt (-1); PStr [233%N]] /\
  encode [PStr [47%N]; PStr [48%N; 49%N]; PInt (-1); PStr [233%N]] = s /\
  ptr_eqb [PInt 1] [PStr [49%N]] = true /\ ptr_eqb [PStr [43%N; 49%N]] [PInt 1] = false.
Proof. vm_compute. repeat split; reflexivity. Qed.
