(* C07 — the compile-time gate (the part that is logic: whatever compiles satisfies the gate).
   Statements only; proofs live in proofs/ParseProofs.v.

   spec/Gate.v states, on the compiled form, what the property lists: comparison operands are
   neither non-singular queries nor Logical/Nodes-typed function results; no Value-typed
   function result and no literal stands as a test at ANY position of a logical expression
   (whole filter, operand of && || !); every function is known and its arguments match its
   declared signature in number and kind; index and slice bounds lie in the configured range;
   no bracketed selection is empty.  C07_gate: a text that compiles has a compiled form with
   all of that - so a query breaking any of these rules is refused (there is no compiled object
   to evaluate).  The converse - everything the gate allows compiles - is proved for the canonical
   spelling of the query (C07_accept_canonical, a corollary of the C10/C17 round trip: the gate,
   with the shape invariants of the parser, is exactly what acceptance of the printed text needs);
   and for every free spelling of it - blank space, either kind of quotes, dot shorthand, bare names
   after `..` (C07_accept_spelled); the remaining spellings (redundant parentheses, word aliases at
   text level, exponents) are carried by the correspondence (every generated well-typed query in
   random spellings compiles to the generated AST). *)
From JP Require Import Base Json Syntax Lex Parse Serialize TokPrint Printable Reparsable Gate NormDomain TokensOk
                       FreeSpell FreeSpellPlus Rfc9535Typing TypedDomain Eval ParseProofs RoundTrip FreeParseProofs FreeSpellPlusProofs TypingAccept.

Theorem C07_gate :
  forall (E : env) re_ok (text : ustr) (q : query),
    e_well_typed E = true ->
    compile E re_ok text = Ok q ->
    gate_query (e_min_index E) (e_max_index E) q = true.
Proof. exact ParseProofs.gate_sound. Qed.
Print Assumptions C07_gate.

(* the same for token lists, whatever produced them (e.g. another environment's lexer) *)
Theorem C07_gate_tokens :
  forall (E : env) re_ok (toks : list token) (q : query),
    e_well_typed E = true ->
    compile_tokens E re_ok toks = Ok q ->
    gate_query (e_min_index E) (e_max_index E) q = true.
Proof. exact ParseProofs.gate_sound_tokens. Qed.
Print Assumptions C07_gate_tokens.

(* everything the gate allows is accepted, in its canonical spelling: a structure that passes the
   gate (and has the shape and float form of something a parser builds) prints to a text that
   compiles - to that structure in normal form - in every environment with admissible spellings *)
Theorem C07_accept_canonical :
  forall (E : env) re_ok (q : query) (t : ustr),
    tokens_ok E = true -> e_well_typed E = true -> e_unicode_escape E = true ->
    gate_query (e_min_index E) (e_max_index E) q = true ->
    printable re_ok q = true -> reparsable E q = true -> floats_stable q = true ->
    query_text E q = Ok t ->
    compile E re_ok t = Ok (norm_query q).
Proof. exact RoundTrip.accept_canonical. Qed.
Print Assumptions C07_accept_canonical.

(* ... and in every free spelling (blank space, either kind of quotes, dot shorthand, bare names
   after `..`: spec/FreeSpell.v): a structure in the domain compiles from each of its spellings *)
Theorem C07_accept_spelled :
  forall (E : env) re_ok (q : query) (t : ustr),
    tokens_ok E = true -> e_well_typed E = true -> e_unicode_escape E = true ->
    c10_domain E re_ok q = true -> FreeSpell.spells E q t ->
    exists q', compile E re_ok t = Ok q' /\ norm_query q' = norm_query q.
Proof. exact FreeParseProofs.free_spelling. Qed.
Print Assumptions C07_accept_spelled.

(* the property's first sentence: every query that is well-formed and well-typed under RFC 9535 - in
   the sense of the INDEPENDENT transcription spec/Rfc9535Typing.v (std_query), with its index and
   slice bounds inside the configured range and literals the model covers (floats: float_ok and
   float_stable; regexes: valid for the regex oracle) - compiles from every free spelling, to a
   query with the same normal form, which returns the same matches on every document *)
Theorem C07_accept_rfc :
  forall (E : env) re_ok rf rs (q : query) (t : ustr) (d ctx : json),
    tokens_ok E = true -> e_well_typed E = true -> e_unicode_escape E = true ->
    in_range (e_min_index E) (e_max_index E) 1%Z = true ->
    Rfc9535Typing.std_query q = true ->
    TypedDomain.bounds_ok (e_min_index E) (e_max_index E) q = true -> TypedDomain.literals_ok re_ok q = true ->
    FreeSpell.spells E q t ->
    exists q', compile E re_ok t = Ok q' /\
               Eval.compound_finditer E rf rs q' d ctx = Eval.compound_finditer E rf rs q d ctx.
Proof. exact TypingAccept.std_accept_results. Qed.
Print Assumptions C07_accept_rfc.

(* RFC typing implies the gate (the two were written independently) *)
Theorem C07_rfc_typed_passes_gate :
  forall (lo hi : Z) (q : query),
    Rfc9535Typing.std_query q = true -> TypedDomain.bounds_ok lo hi q = true -> gate_query lo hi q = true.
Proof. exact TypingAccept.std_gate. Qed.
Print Assumptions C07_rfc_typed_passes_gate.

(* the larger class of spellings: redundant parentheses, bare names inside brackets *)
Theorem C07_accept_spelled_plus :
  forall (E : env) re_ok (q : query) (t : ustr),
    tokens_ok E = true -> e_well_typed E = true -> e_unicode_escape E = true ->
    c10_domain E re_ok q = true -> FreeSpellPlus.spells_plus E q t ->
    exists q', compile E re_ok t = Ok q' /\ norm_query q' = norm_query q.
Proof. exact FreeSpellPlusProofs.free_spelling_plus. Qed.
Print Assumptions C07_accept_spelled_plus.

(* concrete instances of every rejection the property names, and of acceptance (non-vacuity) *)
Example C07_examples :
  let c s := compile default_env (fun _ => Some true) s in
  let is_err (r : result query) k := match r with Err (EJsonPath k') => match k, k' with
                                                     | KType, KType | KSyntax, KSyntax | KIndex, KIndex | KName, KName => true
                                                     | _, _ => false end | _ => false end in
  (* $[?@.* == 1]  non-singular query compared *)
  is_err (c [36; 91; 63; 64; 46; 42; 32; 61; 61; 32; 49; 93]%N) KType = true /\
  (* $[?length(@.a) && @.b]  value-typed function as a test under && *)
  is_err (c [36; 91; 63; 108; 101; 110; 103; 116; 104; 40; 64; 46; 97; 41; 32; 38; 38; 32; 64; 46; 98; 93]%N) KType = true /\
  (* $[?!true]  literal not compared *)
  is_err (c [36; 91; 63; 33; 116; 114; 117; 101; 93]%N) KSyntax = true /\
  (* $[?foo(@)]  unknown function *)
  is_err (c [36; 91; 63; 102; 111; 111; 40; 64; 41; 93]%N) KName = true /\
  (* $[?count(@.a, 1) == 1]  wrong number of arguments *)
  is_err (c [36; 91; 63; 99; 111; 117; 110; 116; 40; 64; 46; 97; 44; 32; 49; 41; 32; 61; 61; 32; 49; 93]%N) KType = true /\
  (* $[9007199254740992]  index outside the range *)
  is_err (c [36; 91; 57; 48; 48; 55; 49; 57; 57; 50; 53; 52; 55; 52; 48; 57; 57; 50; 93]%N) KIndex = true /\
  (* $[01]  leading zero;  $[]  empty;  $[1,]  trailing comma *)
  is_err (c [36; 91; 48; 49; 93]%N) KSyntax = true /\
  is_err (c [36; 91; 93]%N) KSyntax = true /\
  is_err (c [36; 91; 49; 44; 93]%N) KSyntax = true /\
  (* a filter with count of a wildcard query compared to 1, and a match call: compiles *)
  (exists q, c [36; 91; 63; 99; 111; 117; 110; 116; 40; 64; 46; 42; 41; 32; 61; 61; 32; 49; 32; 38; 38; 32; 109; 97; 116; 99; 104; 40; 64; 46; 97; 44; 32; 39; 120; 39; 41; 93]%N = Ok q).
Proof. cbv zeta. repeat (split; [vm_compute; reflexivity|]). eexists. vm_compute. reflexivity. Qed.
