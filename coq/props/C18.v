(* C18 — the command-line tool is a faithful front end to the library (decision logic).
   The handlers' try/except tables and attribute names are REGENERATED from cli.py on every run
   (gen/Gen_cli.v); the theorems below are therefore re-checked against the current source.
   The domain is finite (3 sub-commands x {debug, no debug} x the outcome classes of
   spec/CliSpec.v), so the proof is a complete enumeration by vm_compute, with the enumeration
   part of the statement.  argparse, file I/O, json.dump, process exit: runtime, harness-checked
   on the full option grid (partial). *)
From JP Require Import Base Cli CliSpec.

Theorem C18_table :
  forall (c : command) (debug : bool) (o : cli_outcome),
    In c all_commands -> In o (Success :: rejections c) ->
    cli_run c debug o = demanded debug o.
Proof.
  assert (H : table_ok = true) by (vm_compute; reflexivity).
  intros c debug o Hc Ho.
  unfold table_ok in H. rewrite forallb_forall in H. specialize (H c Hc).
  rewrite forallb_forall in H.
  assert (Hd : In debug [true; false]) by (destruct debug; simpl; auto).
  specialize (H debug Hd). rewrite forallb_forall in H. specialize (H o Ho).
  unfold obs_eqb in H.
  destruct (cli_run c debug o) as [s1 o1 e1 t1], (demanded debug o) as [s2 o2 e2 t2]; simpl in H.
  repeat (apply andb_true_iff in H; destruct H as [H ?]).
  apply Nat.eqb_eq in H. apply Bool.eqb_prop in H2. apply Nat.eqb_eq in H1. apply Bool.eqb_prop in H0.
  subst. reflexivity.
Qed.
Print Assumptions C18_table.

(* every attribute a handler reads is a destination its sub-parser (or the main parser) defines *)
Theorem C18_attrs : forall c, In c all_commands -> attrs_defined c = true.
Proof. intros c [<-|[<-|[<-|[]]]]; vm_compute; reflexivity. Qed.
Print Assumptions C18_attrs.
