(* C17 — renaming the environment's identifier tokens never changes what a query means.
   Statements only; proofs live in proofs/PrintLexProofs.v (the lexer for arbitrary admissible
   spellings), proofs/PrintParseProofs.v (the parser, which sees token kinds only),
   proofs/SpellingProofs.v (the evaluator reads the spellings only to build path text) and
   proofs/RoundTrip.v (assembly).

   Domain.  TokensOk.tokens_ok E: each of the eight spellings is a non-empty string over the sign
   characters that belong to no fixed syntax ($ ^ @ # ~ % ; ` { } _ | &), not beginning with && or
   ||; the eight are pairwise distinct; one may be a proper prefix of another (the lexer tries
   longer spellings first).  NormDomain.c10_domain: as in C10.

   What "the same query written with other spellings" is: one structure q printed by
   Serialize.query_text with each environment's spellings (C17_rename), and, beyond the canonical
   text, every FREE spelling of q (spec/FreeSpell.v: blank space wherever the scanner skips it, single
   or double quotes with any escape spelling of the same string, dot shorthand for names / wildcard /
   keys selector, bare names after `..`, lone dots) - C17_free_spelling - and the spellings that
   differ in token values only (word operators, capitalised / aliased literals, equal numbers,
   omitted slice step) - C17_token_alias.  Not covered by a theorem: redundant parentheses, bare
   names inside brackets, integer literals with exponents, `<>` (a different operator with the same
   meaning: C13).  Those are carried by the correspondence. *)
From JP Require Import Base Json Syntax Lex Parse Eval Serialize TokPrint Printable Reparsable Gate
                       NormDomain TokensOk FreeSpell NormProofs SpellingProofs PrintParseProofs PrintLexProofs RoundTrip FreeSpellProofs FreeParseProofs TokenAlias TokenAliasProofs.

(* the lexer reads the string form produced with ANY admissible spellings as exactly the tokens it
   was printed from - prefix-related spellings included *)
Theorem C17_lex :
  forall (E : env) re_ok (q : query) (t : ustr) (ts : list token),
    tokens_ok E = true -> printable re_ok q = true -> reparsable E q = true ->
    query_text E q = Ok t -> query_toks E q = Ok ts ->
    tokenize E t = ts.
Proof. exact PrintLexProofs.lex_print_env. Qed.
Print Assumptions C17_lex.

(* one query written with the spellings of two environments: both texts compile, each in its own
   environment, to the same compiled query; its matches have the same values in both
   environments, and the same locations when the keys-selector spelling (which is part of the
   location of a key match) is the same; and that compiled query returns what q returns *)
Theorem C17_rename :
  forall (E E0 : env) re_ok (q : query) (t t0 : ustr),
    tokens_ok E = true -> tokens_ok E0 = true ->
    e_well_typed E = true -> e_unicode_escape E = true ->
    e_well_typed E0 = true -> e_unicode_escape E0 = true ->
    c10_domain E re_ok q = true -> c10_domain E0 re_ok q = true ->
    query_text E q = Ok t -> query_text E0 q = Ok t0 ->
    exists q',
      compile E re_ok t = Ok q' /\ compile E0 re_ok t0 = Ok q' /\
      (forall rf rs d ctx,
         on_ok (map m_val) (compound_finditer E rf rs q' d ctx) =
         on_ok (map m_val) (compound_finditer E0 rf rs q' d ctx)) /\
      (e_keys E = e_keys E0 ->
       forall rf rs d ctx,
         on_ok (map (fun m => (m_parts m, m_val m))) (compound_finditer E rf rs q' d ctx) =
         on_ok (map (fun m => (m_parts m, m_val m))) (compound_finditer E0 rf rs q' d ctx)) /\
      (forall rf rs d ctx, compound_finditer E rf rs q' d ctx = compound_finditer E rf rs q d ctx).
Proof. exact RoundTrip.rename. Qed.
Print Assumptions C17_rename.

(* the evaluator does not depend on the spellings at all (no hypothesis on either environment) *)
Theorem C17_values_independent :
  forall (E E' : env) rf rs (q : query) (d ctx : json),
    on_ok (map m_val) (compound_finditer E rf rs q d ctx) =
    on_ok (map m_val) (compound_finditer E' rf rs q d ctx).
Proof. exact SpellingProofs.values_independent. Qed.
Print Assumptions C17_values_independent.

Theorem C17_findall_independent :
  forall (E E' : env) rf rs (q : query) (d ctx : json),
    compound_findall E rf rs q d ctx = compound_findall E' rf rs q d ctx.
Proof. exact SpellingProofs.compound_findall_independent. Qed.
Print Assumptions C17_findall_independent.

(* the string form produced by an environment recompiles in that environment to an equivalent
   query with the same string form (C10 for every admissible assignment) *)
Theorem C17_string_form :
  forall (E : env) re_ok (text : ustr) (q : query) (t : ustr),
    tokens_ok E = true -> e_well_typed E = true -> e_unicode_escape E = true ->
    in_range (e_min_index E) (e_max_index E) 1%Z = true ->
    compile E re_ok text = Ok q ->
    query_text E q = Ok t ->
    exists q',
      compile E re_ok t = Ok q' /\
      (forall rf rs d ctx, compound_finditer E rf rs q' d ctx = compound_finditer E rf rs q d ctx) /\
      query_text E q' = Ok t /\
      c10_domain E re_ok q' = true.
Proof. exact RoundTrip.string_form_env_total. Qed.
Print Assumptions C17_string_form.

(* free spellings (spec/FreeSpell.v: any blank space where the scanner's skip rule allows it; single
   or double quotes with any escape spelling of the same string; dot shorthand for names, wildcard
   and keys selector; a bare name after `..`): the scanner reads them as the tokens they denote, in
   every environment with admissible spellings *)
Theorem C17_lex_free :
  forall (E : env) (q : query) (t : ustr) (ts : list token),
    tokens_ok E = true -> FreeSpell.spells_as E q t ts -> tokenize E t = ts.
Proof. exact FreeSpellProofs.lex_free. Qed.
Print Assumptions C17_lex_free.

(* ... and every free spelling of a query compiles, to a query with the same normal form - hence
   one that returns what the query returns on every document and filter context *)
Theorem C17_free_spelling :
  forall (E : env) re_ok (q : query) (t : ustr),
    tokens_ok E = true -> e_well_typed E = true -> e_unicode_escape E = true ->
    c10_domain E re_ok q = true -> FreeSpell.spells E q t ->
    exists q', compile E re_ok t = Ok q' /\ norm_query q' = norm_query q.
Proof. exact FreeParseProofs.free_spelling. Qed.
Print Assumptions C17_free_spelling.

Theorem C17_free_spelling_results :
  forall (E : env) re_ok rf rs (q : query) (t : ustr) (d ctx : json),
    tokens_ok E = true -> e_well_typed E = true -> e_unicode_escape E = true ->
    c10_domain E re_ok q = true -> FreeSpell.spells E q t ->
    exists q', compile E re_ok t = Ok q' /\
               compound_finditer E rf rs q' d ctx = compound_finditer E rf rs q d ctx.
Proof. exact FreeParseProofs.free_spelling_results. Qed.
Print Assumptions C17_free_spelling_results.

(* the spellings that differ in token VALUES only (spec/TokenAlias.v: word operators and/or/not,
   capitalised and aliased literals True/False/Nil/null/none, undefined/missing, float literals
   denoting the same number, an omitted slice step vs 1): position-wise aliased token lists compile
   to queries with the same normal form, or fail with the same error *)
Theorem C17_token_alias :
  forall (E : env) re_ok (ts ts' : list token),
    in_range (e_min_index E) (e_max_index E) 1%Z = true ->
    TokenAlias.alias ts ts' ->
    match compile_tokens E re_ok ts, compile_tokens E re_ok ts' with
    | Ok q, Ok q' => norm_query q = norm_query q'
    | Err e, Err e' => e = e'
    | _, _ => False
    end.
Proof. exact TokenAliasProofs.alias_compile. Qed.
Print Assumptions C17_token_alias.

(* the default spellings are admissible *)
Theorem C17_default_admissible : forall E, default_tokens E -> tokens_ok E = true.
Proof. exact PrintLexProofs.default_tokens_ok. Qed.
Print Assumptions C17_default_admissible.

(* non-vacuity: prefix-related multi-character spellings; the query uses all eight identifiers:
     $[?_['a'] || __ == #] | $$[~] &; $$
   written with root=$$ fake=$ self=_ key=# union=| inter=&; ctx=__ keys=~ *)
Definition C17_example_env : env :=
  mkEnv [36;36]%N [36]%N [95]%N [35]%N [124]%N [38;59]%N [95;95]%N [126]%N
        (-9007199254740991)%Z 9007199254740991%Z true true true.
Definition C17_example_text : ustr :=
  [36;91;63;95;91;39;97;39;93;32;124;124;32;95;95;32;61;61;32;35;93;32;124;32;36;36;91;126;93;32;38;59;32;36;36]%N.

Example C17_example :
  tokens_ok C17_example_env = true /\
  exists q t t0,
    compile C17_example_env (fun _ => Some true) C17_example_text = Ok q /\
    c10_domain C17_example_env (fun _ => Some true) q = true /\
    query_text C17_example_env q = Ok t /\
    compile C17_example_env (fun _ => Some true) t = Ok (norm_query q) /\
    query_text default_env q = Ok t0 /\
    compile default_env (fun _ => Some true) t0 = Ok (norm_query q).
Proof.
  split. { vm_compute; reflexivity. }
  eexists. eexists. eexists.
  split. { vm_compute; reflexivity. } split. { vm_compute; reflexivity. }
  split. { vm_compute; reflexivity. } split. { vm_compute; reflexivity. }
  split. { vm_compute; reflexivity. } vm_compute; reflexivity.
Qed.
