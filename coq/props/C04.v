(* C04 — JSON Pointer resolution conforms to RFC 6901 for every document and pointer.
   Statements only; proofs live in proofs/PointerProofs.v. *)
From JP Require Import Base Json PyStr Pointer Rfc6901 PointerDomain PointerProofs.

(* with escape decoding enabled the clause covers pointers without a backslash;
   with it disabled, every pointer *)
Definition mode_ok (mode : bool) (s : ustr) : Prop := mode = false \/ no_backslash s = true.

(* Every syntactically valid pointer (within the integer limits): when RFC 6901 section 4
   evaluates it to a node, resolution returns that very node (same location, hence the same
   object); when RFC 6901 cannot evaluate it and it uses none of the documented extensions,
   resolution fails with a pointer *resolution* error and yields no value. *)
Theorem C04_agree :
  forall (mode : bool) (s : ustr) (d : json),
    rfc6901_syntax s = true -> mode_ok mode s ->
    tokens_within_limits (rfc_tokens s) = true ->
    exists p, Pointer.parse mode s = Ok p /\
      match rfc_eval (rfc_tokens s) d with
      | Some (l, v) => resolve p d = Ok (RNode l v)
      | None => outside_extensions (rfc_tokens s) = true ->
                exists e, resolve p d = Err e /\ is_resolution_error e = true
      end.
Proof. exact PointerProofs.agree. Qed.
Print Assumptions C04_agree.

(* Every node of every document is reached by the pointer spelled from its member names and
   array indices, whatever characters the names contain. *)
Theorem C04_reach :
  forall (mode : bool) (d : json) (l : loc) (v : json),
    node_at d l = Some v ->
    mode_ok mode (spell_loc l) ->
    tokens_within_limits (map part_token l) = true ->
    exists p, Pointer.parse mode (spell_loc l) = Ok p /\ resolve p d = Ok (RNode l v).
Proof. exact PointerProofs.reach. Qed.
Print Assumptions C04_reach.

(* With a default, a resolution error yields the default and never a value of the document. *)
Theorem C04_default :
  forall (p : pointer) (d dflt : json) (e : exn),
    resolve p d = Err e -> is_resolution_error e = true ->
    resolve_default p d dflt = Ok (RVal dflt).
Proof. exact PointerProofs.default_on_error. Qed.
Print Assumptions C04_default.

(* exists agrees with whether resolve succeeds. *)
Theorem C04_exists :
  forall (p : pointer) (d : json),
    (exists_ p d = Ok true <-> exists r, resolve p d = Ok r) /\
    (exists_ p d = Ok false <-> exists e, resolve p d = Err e /\ is_resolution_error e = true).
Proof. exact PointerProofs.exists_spec. Qed.
Print Assumptions C04_exists.

(* Non-vacuity: a concrete document and pointers on both sides of the theorem. *)
Example C04_example_found :
  let d := JObj [([97%N], JArr [JNull; JObj [([126%N; 47%N], JBool true)]])] in   (* {"a": [null, {"~/": true}]} *)
  let s := [47; 97; 47; 49; 47; 126; 48; 126; 49]%N in                             (* /a/1/~0~1 *)
  rfc6901_syntax s = true /\ tokens_within_limits (rfc_tokens s) = true /\
  rfc_eval (rfc_tokens s) d = Some ([PKey [97%N]; PIdx 1; PKey [126%N; 47%N]], JBool true) /\
  (exists p, Pointer.parse true s = Ok p /\
             resolve p d = Ok (RNode [PKey [97%N]; PIdx 1; PKey [126%N; 47%N]] (JBool true))).
Proof.
  cbv zeta. repeat (split; [vm_compute; reflexivity|]).
  eexists; split; [vm_compute; reflexivity|vm_compute; reflexivity].
Qed.

Example C04_example_missing :
  let d := JObj [([97%N], JArr [JNull])] in
  let s := [47; 97; 47; 48; 49]%N in                                               (* /a/01 *)
  rfc6901_syntax s = true /\ outside_extensions (rfc_tokens s) = true /\
  rfc_eval (rfc_tokens s) d = None /\
  (exists p, Pointer.parse true s = Ok p /\ resolve p d = Err (EPointer KPtrType)).
Proof.
  cbv zeta. repeat (split; [vm_compute; reflexivity|]).
  eexists; split; [vm_compute; reflexivity|vm_compute; reflexivity].
Qed.
