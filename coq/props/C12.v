(* C12 — Query iterator operations behave as list slicing on the match sequence.
   Statements only; proofs live in proofs/FluentProofs.v. *)
From JP Require Import Base Fluent ListSpec FluentProofs.

(* For every match sequence xs and every program of query-iterator operations
   (over every live query, including those created by take and tee), the events
   returned to the caller and the matches every live query finally yields are
   those of the corresponding list operations. *)
Theorem C12_refine :
  forall (A : Type) (ops : list op) (xs : list A),
    observe A ops xs = sobserve A ops xs.
Proof. exact observe_refines. Qed.
Print Assumptions C12_refine.

(* Negative counts are refused with a value error and change nothing. *)
Theorem C12_negative :
  forall (A : Type) (st : state A) (o : op) (q : nat) (n : Z),
    (o = OLimit q n \/ o = ODrop q n \/ o = OTail q n \/ o = OTake q n \/ o = OTee q n) ->
    (n < 0)%Z -> q < length st ->
    fstep A st o = (st, [EvValueError]).
Proof. exact negative_refused. Qed.
Print Assumptions C12_negative.

(* Non-vacuity: a concrete non-trivial program. *)
Example C12_example :
  observe nat [OLimit 0 5%Z; OTake 0 2%Z; OTee 0 2%Z; OTail 2 1%Z; OFirst 3; ODrop 1 (-1)%Z] [1;2;3;4;5;6;7]
  = ([EvNew 1; EvNew 2; EvItem (Some 3); EvValueError], [[]; [1;2]; [5]; [4;5]]).
Proof. vm_compute. reflexivity. Qed.
