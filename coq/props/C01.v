(* C01 — RFC 9535 segments and selectors yield exactly the specified nodelist (evaluation part).
   Statements only; proofs live in proofs/EvalProofs.v.  The surface-syntax part (every
   spelling compiles to the same query) is in props/C01Syntax.v. *)
From JP Require Import Base Json PySlice Syntax Eval Rfc9535 Rfc9535Typing EvalCorr EvalProofs.

(* every RFC 9535 query, every JSON value: the matches are exactly the RFC nodelist -
   length, order and duplicates included, object members in document order *)
Theorem C01_eval :
  forall (E : env) re_full re_search (p : jpath) (d : json),
    std_path p = true ->
    exists ms, finditer E re_full re_search p d (JObj []) = Ok ms /\
               map node_of ms = nodelist re_full re_search (e_keys E) (p_segs p) d.
Proof. exact EvalProofs.std_eval. Qed.
Print Assumptions C01_eval.

(* slices: CPython's slice.indices + range select exactly the RFC's Normalize/Bounds positions,
   for every length, every sign of start/stop/step, zero step, omitted and out-of-range bounds *)
Theorem C01_slice :
  forall (len : nat) (start stop step : option Z),
    slice_positions len start stop step =
    map Z.to_nat (rfc_slice_indices (Z.of_nat len) start stop step).
Proof. exact EvalProofs.slice_agrees. Qed.
Print Assumptions C01_slice.

(* selectors applied to the wrong kind of value select nothing *)
Theorem C01_wrong_kind :
  forall (E : env) re_full re_search (s : selector) (root ctx : json) (m : jmatch),
    (is_container (m_val m) = false ->
       resolve_sel E re_full re_search s root ctx m = Ok []) /\
    (forall xs, m_val m = JArr xs -> forall k, resolve_sel E re_full re_search (SName k) root ctx m = Ok []) /\
    (forall ms a b c, m_val m = JObj ms -> resolve_sel E re_full re_search (SSlice a b c) root ctx m = Ok []).
Proof. exact EvalProofs.wrong_kind. Qed.
Print Assumptions C01_wrong_kind.

(* the reference order satisfies the RFC's constraints on descendants: a node comes before its
   descendants, and array elements keep their order *)
Theorem C01_descendant_order :
  forall (l : loc) (v : json),
    hd_error (descendants (l, v)) = Some (l, v) /\
    (forall xs i j a b, v = JArr xs -> i < j -> nth_opt xs i = Some a -> nth_opt xs j = Some b ->
       exists pre mid post, descendants (l, v) = pre ++ (l ++ [PIdx i], a) :: mid ++ (l ++ [PIdx j], b) :: post).
Proof. exact EvalProofs.descendant_order. Qed.
Print Assumptions C01_descendant_order.

Example C01_example :
  (* $..[0, 'a'][-1:]  on  {"a": [1, [2, 3]], "b": [[4]]} *)
  let p := mkPath false (PCons GDescent (PCons (GList (LCons (SIndex 0) (LCons (SName [97%N]) LNil)))
                         (PCons (GList (LCons (SSlice (Some (-1)%Z) None None) LNil)) PNil))) in
  let n z := JNum (num_of_Z z) in
  let d := JObj [([97%N], JArr [n 1%Z; JArr [n 2%Z; n 3%Z]]); ([98%N], JArr [JArr [n 4%Z]])] in
  std_path p = true /\
  nodelist (fun _ _ _ => None) (fun _ _ => None) [126%N] (p_segs p) d
    = [([PKey [97%N]; PIdx 1], JArr [n 2%Z; n 3%Z]); ([PKey [98%N]; PIdx 0; PIdx 0], n 4%Z)].
Proof. vm_compute. split; reflexivity. Qed.
