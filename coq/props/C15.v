(* C15 — a patch is a faithful, reusable value: document, builder and dict forms agree.
   Statements only; proofs live in proofs/PatchProofs.v.
   In the value model a patch is an immutable list of operations, so "applying never changes
   the patch" and "results are independent" hold by construction; those clauses are checked on
   the implementation by the harness (object identity, snapshots) and are not theorems here. *)
From JP Require Import Base Json PyStr Pointer Patch Rfc6901 Rfc6902 Edit PointerDomain PatchCorr PatchProofs PatchHeap PatchHeapProofs PatchHeapRefine.

(* normal_part, std_pointer, refines: see spec/PatchCorr.v *)

(* every loaded operation prints with the operation name it was given *)
Theorem C15_names :
  forall (mode : bool) (ods : list opdoc) (pops : list pop),
    build mode ods = Ok pops -> map od_op (asdicts pops) = map od_op ods.
Proof. exact PatchProofs.build_names. Qed.
Print Assumptions C15_names.

(* ... and with the value it was given *)
Theorem C15_values :
  forall (mode : bool) (ods : list opdoc) (pops : list pop),
    build mode ods = Ok pops ->
    Forall2 (fun o d => match od_op d with
                        | NRemove | NMove | NCopy => True
                        | _ => od_value o = od_value d
                        end) (asdicts pops) ods.
Proof. exact PatchProofs.build_values. Qed.
Print Assumptions C15_values.

(* loading a patch's own list-of-dicts output gives the same patch: same dicts, same effect *)
Theorem C15_reload :
  forall (mode : bool) (ods : list opdoc) (pops : list pop),
    build mode ods = Ok pops ->
    (mode = false \/ Forall (fun o => no_backslash (od_path o) = true /\ no_backslash (od_from o) = true) (asdicts pops)) ->
    build mode (asdicts pops) = Ok pops.
Proof. exact PatchProofs.build_reload. Qed.
Print Assumptions C15_reload.

(* addne differs from add only in leaving an existing object member untouched *)
Theorem C15_addne :
  forall (p : pointer) (v d : json),
    std_pointer p -> refines (Patch.apply [OpAddNe p v] d) (doc_addne (tokens p) v d).
Proof. exact PatchProofs.addne_refines. Qed.
Print Assumptions C15_addne.

(* addap differs only in appending when the array index cannot be resolved *)
Theorem C15_addap :
  forall (p : pointer) (v d : json),
    std_pointer p -> refines (Patch.apply [OpAddAp p v] d) (doc_addap (tokens p) v d).
Proof. exact PatchProofs.addap_refines. Qed.
Print Assumptions C15_addap.

(* the same two clauses, and RFC 6902 add itself, for a wider domain: add / addne / addap never
   resolve their last reference token, so when the parent is not an array it may look like anything
   (a non-standard key token `#name` / `~name` included) - only the tokens before it must be
   standard.  (For array parents the widening is false: Python's list.insert accepts negative
   indices; PatchProofs.add_negative_index_refuted.) *)
Theorem C15_add_wide :
  forall (p : pointer) (v d : json),
    add_domain p d -> refines (Patch.apply [OpAdd p v] d) (rfc_op (RAdd (tokens p) v) d).
Proof. exact PatchProofs.add_refines_wide. Qed.
Print Assumptions C15_add_wide.

Theorem C15_addne_wide :
  forall (p : pointer) (v d : json),
    add_domain p d -> refines (Patch.apply [OpAddNe p v] d) (doc_addne (tokens p) v d).
Proof. exact PatchProofs.addne_refines_wide. Qed.
Print Assumptions C15_addne_wide.

Theorem C15_addap_wide :
  forall (p : pointer) (v d : json),
    add_domain p d -> refines (Patch.apply [OpAddAp p v] d) (doc_addap (tokens p) v d).
Proof. exact PatchProofs.addap_refines_wide. Qed.
Print Assumptions C15_addap_wide.

(* ---- the aliasing clauses, on the heap model (model/PatchHeap.v) ------------------------------- *)
(* applying never changes the patch: the cells the patch owns are not written, every stored
   operation reads the same afterwards - also when a later operation of the same patch edits inside
   a container an earlier one added (what was added is a copy) *)
Theorem C15_patch_unchanged :
  forall fuel h ops root h' root',
    closed h -> valloc h root -> patch_separate h ops root ->
    happly fuel h ops root = Ok (h', root') ->
    (forall n o, In o ops -> hop_read n h' o = hop_read n h o) /\
    (forall a, owned h' ops a <-> owned h ops a).
Proof. exact PatchHeapProofs.patch_unchanged. Qed.
Print Assumptions C15_patch_unchanged.

(* constructing a patch copies what it is given: it owns only fresh cells, separate from every
   document that already exists and from the caller's values *)
Theorem C15_build_separate :
  forall fuel h ops h' ops' root,
    closed h -> valloc h root -> hbuild fuel h ops = Ok (h', ops') ->
    closed h' /\ valloc h' root /\ patch_separate h' ops' root /\
    (forall a, owned h' ops' a -> h_next h <= a).
Proof. exact PatchHeapProofs.build_separate. Qed.
Print Assumptions C15_build_separate.

(* results are independent of the patch and of each other *)
Theorem C15_result_independent_of_patch :
  forall fuel h ops root h' root',
    closed h -> valloc h root -> patch_separate h ops root ->
    happly fuel h ops root = Ok (h', root') ->
    forall a, reach h' root' a -> ~ owned h' ops a.
Proof. exact PatchHeapProofs.result_independent_of_patch. Qed.
Print Assumptions C15_result_independent_of_patch.

Theorem C15_results_independent :
  forall fuel h ops1 ops2 root1 root2 h1 r1 h2 r2,
    closed h -> valloc h root1 -> valloc h root2 ->
    (forall a, reach h root1 a -> ~ reach h root2 a) ->
    happly fuel h ops1 root1 = Ok (h1, r1) ->
    happly fuel h1 ops2 root2 = Ok (h2, r2) ->
    forall a, reach h2 r1 a -> ~ reach h2 r2 a.
Proof. exact PatchHeapProofs.results_independent. Qed.
Print Assumptions C15_results_independent.

(* apply works in place: unless an operation replaces the root, the returned object is the argument *)
Theorem C15_in_place :
  forall fuel ops h root h' root',
    forallb keeps_root ops = true -> happly fuel h ops root = Ok (h', root') -> root' = root.
Proof. exact PatchHeapProofs.in_place_root. Qed.
Print Assumptions C15_in_place.

(* the heap run computes what the value model computes (so every theorem about Patch.apply carries over) *)
Theorem C15_heap_refines_values :
  forall fuel ops ops' h root d F,
    closed h -> valloc h root -> rep h root d F -> Forall2 (denotes h root) ops ops' ->
    match happly fuel h ops root with
    | Ok (h', root') => exists d' F', Patch.apply ops' d = Ok d' /\ rep h' root' d' F'
    | Err e => e = EOutOfFuel \/ Patch.apply ops' d = Err e
    end.
Proof. exact PatchHeapRefine.refinement. Qed.
Print Assumptions C15_heap_refines_values.

Example C15_example :
  let ods := [mkOpDoc NAddAp [47%N; 97%N; 47%N; 57%N] [] JNull; mkOpDoc NAddNe [47%N; 97%N] [] JNull] in
  exists pops, build true ods = Ok pops /\ map od_op (asdicts pops) = [NAddAp; NAddNe] /\
               Patch.apply pops (JObj [([97%N], JArr [])]) = Ok (JObj [([97%N], JArr [JNull])]).
Proof.
  (* [vm_compute] on the whole goal would strongly normalise under the [exists] binder
     (the bodies of the stuck fixpoints) and does not terminate in practical time *)
  eexists. split; [vm_compute; reflexivity|]. split; vm_compute; reflexivity.
Qed.
