(* C10 — a compiled query's string form recompiles to an equivalent query.
   Statements only; proofs live in proofs/PrintParseProofs.v (parser), proofs/PrintLexProofs.v
   (lexer), proofs/RoundTrip.v and proofs/NormProofs.v.

   Serialize.query_text is the string form; TokPrint.query_toks the token sequence it is made
   of; TokPrint.norm_query what reparsing yields (a selector that stood alone at path level
   comes back as a one-element bracketed list, an omitted slice step as 1, a float as the float
   its repr denotes).  The round trip is split at the token level:
       tokenize (query_text q) = query_toks q            C10_lex
       compile_tokens (query_toks q) = Ok (norm_query q)  C10_parse
   and norm_query is shown to change neither the results nor the string form. *)
From JP Require Import Base Json Syntax Lex Parse Eval Serialize TokPrint Printable Gate
                       NormProofs PrintParseProofs PrintLexProofs RoundTrip.

(* the string form of a compiled query, as tokens, parses back to its normal form *)
Theorem C10_parse :
  forall (E : env) re_ok (q : query) (ts : list token),
    e_well_typed E = true -> e_unicode_escape E = true ->
    gate_query (e_min_index E) (e_max_index E) q = true -> printable re_ok q = true ->
    query_toks E q = Ok ts ->
    compile_tokens E re_ok ts = Ok (norm_query q).
Proof. exact PrintParseProofs.parse_print. Qed.
Print Assumptions C10_parse.

(* the lexer reads the string form as exactly those tokens *)
Theorem C10_lex :
  forall (E : env) re_ok (q : query) (t : ustr) (ts : list token),
    default_tokens E -> printable re_ok q = true ->
    query_text E q = Ok t -> query_toks E q = Ok ts ->
    tokenize E t = ts.
Proof. exact PrintLexProofs.lex_print. Qed.
Print Assumptions C10_lex.

(* hence: the string form compiles, to the normal form *)
Theorem C10_roundtrip :
  forall (E : env) re_ok (q : query) (t : ustr),
    default_tokens E -> e_well_typed E = true -> e_unicode_escape E = true ->
    gate_query (e_min_index E) (e_max_index E) q = true -> printable re_ok q = true ->
    query_text E q = Ok t ->
    compile E re_ok t = Ok (norm_query q).
Proof. exact RoundTrip.roundtrip. Qed.
Print Assumptions C10_roundtrip.

(* the normal form returns the same matches on every document ... *)
Theorem C10_norm_equiv :
  forall (E : env) rf rs (q : query) (d ctx : json),
    compound_finditer E rf rs (norm_query q) d ctx = compound_finditer E rf rs q d ctx.
Proof. exact NormProofs.norm_equiv. Qed.
Print Assumptions C10_norm_equiv.

(* ... has the same string form (so the string form is a fixed point) ... *)
Theorem C10_norm_text :
  forall (E : env) (q : query), query_text E (norm_query q) = query_text E q.
Proof. exact NormProofs.norm_text. Qed.
Print Assumptions C10_norm_text.

(* ... and is itself printable, gated and normal *)
Theorem C10_norm_stable :
  forall (E : env) re_ok (q : query),
    gate_query (e_min_index E) (e_max_index E) q = true -> printable re_ok q = true ->
    gate_query (e_min_index E) (e_max_index E) (norm_query q) = true /\
    printable re_ok (norm_query q) = true /\
    norm_query (norm_query q) = norm_query q.
Proof. exact NormProofs.norm_stable. Qed.
Print Assumptions C10_norm_stable.

(* every query the parser accepts is printable (so the theorems above apply to "every query the
   environment accepts") *)
Theorem C10_compiled_printable :
  forall (E : env) re_ok (text : ustr) (q : query),
    compile E re_ok text = Ok q -> printable re_ok q = true.
Proof. exact PrintParseProofs.compiled_printable. Qed.
Print Assumptions C10_compiled_printable.

Example C10_example :
  (* $.a[?!(@.b == 1) && (@.c || $.d) || @.e in ['x', "y"]]  ->  its string form -> the same normal form *)
  let text := [36;46;97;91;63;33;40;64;46;98;32;61;61;32;49;41;32;38;38;32;40;64;46;99;32;124;124;32;36;46;100;41;32;124;124;32;64;46;101;32;105;110;32;91;39;120;39;44;32;34;121;34;93;93]%N in
  exists q t, compile default_env (fun _ => Some true) text = Ok q /\
              query_text default_env q = Ok t /\
              compile default_env (fun _ => Some true) t = Ok (norm_query q) /\
              query_text default_env (norm_query q) = Ok t.
Proof. eexists. eexists. split; [vm_compute; reflexivity|]. split; [vm_compute; reflexivity|]. split; vm_compute; reflexivity. Qed.
