(* C10 — a compiled query's string form recompiles to an equivalent query.
   Statements only; proofs live in proofs/PrintLexProofs.v (lexer half), proofs/PrintParseProofs.v
   (parser half), proofs/NormProofs.v (normal form) and proofs/RoundTrip.v (assembly).

   Serialize.query_text is the string form (str(compiled query)); TokPrint.query_toks the token
   sequence it is made of; TokPrint.norm_query what reparsing yields (a selector that stood alone
   at path level comes back as a one-element bracketed list, an omitted slice step as 1, a float
   as the float its repr denotes).  The round trip is split at the token level:
       tokenize (query_text q) = query_toks q            C10_lex
       compile_tokens (query_toks q) = Ok (norm_query q)  C10_parse
   and norm_query is shown to change neither the results nor the string form.

   Domain.  NormDomain.c10_domain E re_ok q = gate (C07) && printable && reparsable && floats_stable:
   the invariants of what Parser.parse builds.  C10_compiled_in_domain shows that every compiled
   query is in it (the float part: the model parser accepts a float literal only when it has at
   most 15 significant digits and a normalised exponent within [-290, 300], and for those the
   repr reads back as the very same float - C10_parsed_float_ok; literals outside that are
   EUnsupported in the model, i.e. outside the theorems, and are checked on the implementation
   alone).  The domain predicates are also extracted and evaluated by the correspondence on every
   compiled query of every run.  The statements that are false without the domain conditions are
   kept as refutations at the end. *)
From JP Require Import Base Json Syntax Lex Parse Eval Serialize TokPrint Printable Reparsable Gate
                       NormDomain NormProofs FloatDomain PrintParseProofs PrintLexProofs RoundTrip.

(* headline: in the default environment, the string form of a compiled query compiles, to a query
   that returns the same matches on every document and filter context, whose string form is the
   same text (fixed point), and which is again in the domain *)
Theorem C10_string_form :
  forall re_ok (text : ustr) (q : query) (t : ustr),
    compile default_env re_ok text = Ok q ->
    query_text default_env q = Ok t ->
    exists q',
      compile default_env re_ok t = Ok q' /\
      (forall rf rs d ctx, compound_finditer default_env rf rs q' d ctx = compound_finditer default_env rf rs q d ctx) /\
      query_text default_env q' = Ok t /\
      c10_domain default_env re_ok q' = true.
Proof. exact RoundTrip.string_form_total. Qed.
Print Assumptions C10_string_form.

(* the string form of a query in the domain, as tokens, parses back to its normal form (any
   environment: the parser sees token kinds, not spellings) *)
Theorem C10_parse :
  forall (E : env) re_ok (q : query) (ts : list token),
    e_well_typed E = true -> e_unicode_escape E = true ->
    gate_query (e_min_index E) (e_max_index E) q = true -> printable re_ok q = true ->
    reparsable E q = true ->
    query_toks E q = Ok ts ->
    compile_tokens E re_ok ts = Ok (norm_query q).
Proof. exact PrintParseProofs.parse_print. Qed.
Print Assumptions C10_parse.

(* the lexer reads the string form as exactly those tokens *)
Theorem C10_lex :
  forall (E : env) re_ok (q : query) (t : ustr) (ts : list token),
    default_tokens E -> printable re_ok q = true -> reparsable E q = true ->
    query_text E q = Ok t -> query_toks E q = Ok ts ->
    tokenize E t = ts.
Proof. exact PrintLexProofs.lex_print_reparsable. Qed.
Print Assumptions C10_lex.

(* hence: the string form compiles, to the normal form *)
Theorem C10_roundtrip :
  forall (E : env) re_ok (q : query) (t : ustr),
    default_tokens E -> e_well_typed E = true -> e_unicode_escape E = true ->
    c10_domain E re_ok q = true ->
    query_text E q = Ok t ->
    compile E re_ok t = Ok (norm_query q).
Proof. exact RoundTrip.roundtrip. Qed.
Print Assumptions C10_roundtrip.

(* the normal form returns the same matches on every document (no side condition) ... *)
Theorem C10_norm_equiv :
  forall (E : env) rf rs (q : query) (d ctx : json),
    compound_finditer E rf rs (norm_query q) d ctx = compound_finditer E rf rs q d ctx.
Proof. exact NormProofs.norm_equiv. Qed.
Print Assumptions C10_norm_equiv.

(* ... has the same string form (so the string form is a fixed point) ... *)
Theorem C10_fixed_point :
  forall (E : env) re_ok (q : query) (t : ustr),
    c10_domain E re_ok q = true ->
    query_text E q = Ok t -> query_text E (norm_query q) = Ok t.
Proof. exact RoundTrip.fixed_point. Qed.
Print Assumptions C10_fixed_point.

(* ... and is itself in the domain, and normal *)
Theorem C10_domain_stable :
  forall (E : env) re_ok (q : query),
    in_range (e_min_index E) (e_max_index E) 1%Z = true ->
    e_well_typed E = true -> e_unicode_escape E = true -> default_tokens E ->
    c10_domain E re_ok q = true ->
    forall t, query_text E q = Ok t ->
    c10_domain E re_ok (norm_query q) = true /\ norm_query (norm_query q) = norm_query q.
Proof. exact RoundTrip.domain_stable. Qed.
Print Assumptions C10_domain_stable.

(* every query the parser accepts is in the domain (the parser only accepts float literals whose
   repr reads back as the same float: C10_parsed_float_ok) *)
Theorem C10_compiled_in_domain :
  forall (E : env) re_ok (text : ustr) (q : query),
    in_range (e_min_index E) (e_max_index E) 1%Z = true -> e_well_typed E = true ->
    compile E re_ok text = Ok q ->
    c10_domain E re_ok q = true.
Proof. exact RoundTrip.compiled_domain. Qed.
Print Assumptions C10_compiled_in_domain.

Theorem C10_parsed_float_ok :
  forall s n, parse_float_literal s = Ok (FFloat n) -> float_ok n = true /\ float_stable n = true.
Proof. exact FloatDomain.parsed_float_ok. Qed.
Print Assumptions C10_parsed_float_ok.

(* the shape part of the domain is proved for every compiled query outright *)
Theorem C10_compiled_reparsable :
  forall (E : env) re_ok (text : ustr) (q : query),
    in_range (e_min_index E) (e_max_index E) 1%Z = true ->
    compile E re_ok text = Ok q -> reparsable E q = true.
Proof. exact PrintParseProofs.compiled_reparsable. Qed.
Print Assumptions C10_compiled_reparsable.

(* a float reread from its repr denotes the same number (used by C10_norm_equiv; proved outright) *)
Theorem C10_float_reread_value :
  forall n t n', float_repr n = Ok t -> parse_float_literal t = Ok (FFloat n') -> num_eqb n n' = true.
Proof. exact FloatRepr.float_reread_value. Qed.
Print Assumptions C10_float_reread_value.

(* --- why the domain conditions are there: the unconditional statements are false ------------- *)
(* a bare index selector followed by ".." (never built by the parser) prints as "$5..", which
   the lexer reads as the float "5." *)
Theorem C10_lex_without_shape_refuted :
  ~ (forall (E : env) re_ok (q : query) (t : ustr) (ts : list token),
       default_tokens E -> printable re_ok q = true ->
       query_text E q = Ok t -> query_toks E q = Ok ts -> tokenize E t = ts).
Proof. exact PrintLexProofs.lex_print_unsafe_refuted. Qed.
Print Assumptions C10_lex_without_shape_refuted.

Example C10_example :
  (* $.a[?!(@.b == 1) && (@.c || $.d) || @.e in ['x', "y"]]  ->  its string form -> the same normal form *)
  let text := [36;46;97;91;63;33;40;64;46;98;32;61;61;32;49;41;32;38;38;32;40;64;46;99;32;124;124;32;36;46;100;41;32;124;124;32;64;46;101;32;105;110;32;91;39;120;39;44;32;34;121;34;93;93]%N in
  exists q t, compile default_env (fun _ => Some true) text = Ok q /\
              c10_domain default_env (fun _ => Some true) q = true /\
              floats_ok q = true /\ floats_stable q = true /\
              query_text default_env q = Ok t /\
              compile default_env (fun _ => Some true) t = Ok (norm_query q) /\
              query_text default_env (norm_query q) = Ok t.
Proof.
  eexists. eexists. split; [vm_compute; reflexivity|].
  split; [vm_compute; reflexivity|]. split; [vm_compute; reflexivity|]. split; [vm_compute; reflexivity|].
  split; [vm_compute; reflexivity|]. split; vm_compute; reflexivity.
Qed.

(* the bare-slice spelling the lexer accepts: "$1:2 3:4" prints as "$[1:2:1][3:4:1]" and round-trips *)
Example C10_two_bare_slices :
  let text := [36;49;58;50;32;51;58;52]%N in
  exists q t, compile default_env (fun _ => Some true) text = Ok q /\
              query_text default_env q = Ok t /\
              t = [36;91;49;58;50;58;49;93;91;51;58;52;58;49;93]%N /\
              compile default_env (fun _ => Some true) t = Ok (norm_query q).
Proof.
  eexists. eexists. split; [vm_compute; reflexivity|]. split; [vm_compute; reflexivity|].
  split; vm_compute; reflexivity.
Qed.
