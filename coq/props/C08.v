(* C08 — the async API returns exactly what the sync API returns.
   Statements only; proofs live in proofs/AsyncProofs.v.
   EvalAsync.v transcribes the hand-written *_async twins; Eval.v the synchronous methods.
   The event loop is not modelled: each evaluation is a function of its arguments with no shared
   mutable state, which is what the harness's gathered runs test (partial on schedules). *)
From JP Require Import Base Json Syntax Eval EvalAsync AsyncProofs.

Theorem C08_finditer :
  forall (E : env) re_full re_search (p : jpath) (d ctx : json),
    finditer_async E re_full re_search p d ctx = finditer E re_full re_search p d ctx.
Proof. exact finditer_async_eq. Qed.
Print Assumptions C08_finditer.

Theorem C08_findall :
  forall (E : env) re_full re_search (p : jpath) (d ctx : json),
    findall_async E re_full re_search p d ctx = findall E re_full re_search p d ctx.
Proof. exact findall_async_eq. Qed.
Print Assumptions C08_findall.

Theorem C08_compound_findall :
  forall (E : env) re_full re_search (q : query) (d ctx : json),
    compound_findall_async E re_full re_search q d ctx = compound_findall E re_full re_search q d ctx.
Proof. exact compound_findall_async_eq. Qed.
Print Assumptions C08_compound_findall.

Theorem C08_compound_finditer :
  forall (E : env) re_full re_search (q : query) (d ctx : json),
    compound_finditer_async E re_full re_search q d ctx = compound_finditer E re_full re_search q d ctx.
Proof. exact compound_finditer_async_eq. Qed.
Print Assumptions C08_compound_finditer.

(* non-vacuity: a string reached by a wildcard (the case the async twin used to get wrong) *)
Example C08_example :
  let p := mkPath false (PCons (GSel (SName [97%N])) (PCons (GSel SWild) PNil)) in     (* $.a.* *)
  let d := JObj [([97%N], JStr [120%N; 121%N])] in                                     (* {"a": "xy"} *)
  finditer_async default_env (fun _ _ _ => None) (fun _ _ => None) p d (JObj []) = Ok [] /\
  finditer default_env (fun _ _ _ => None) (fun _ _ => None) p d (JObj []) = Ok [].
Proof. vm_compute. split; reflexivity. Qed.
