(* C06 — only the documented error families ever escape (the part that is logic).
   Statements only; proofs live in proofs/ParseProofs.v and proofs/FamilyProofs.v.

   Every model function returns [result]; the constructor EBuiltin marks each place where
   CPython would let a built-in exception escape.  The theorems say that, for ALL inputs, the
   models never produce one: errors are of the documented family (or the input is outside the
   model, EUnsupported - such inputs are skipped by the correspondence).  Termination: the
   models are total functions; the parser recurses on explicit fuel and C06_parse_terminates
   shows the fuel always suffices; time inside `re` and inputs nested deeper than 100 levels are outside the
   claim, as the property says. *)
From JP Require Import Base Json PyStr Syntax Lex Parse Eval Pointer RelPointer Patch Gate ParseProofs ParseFuel FamilyProofs.

Definition only (fam : exn -> bool) {A} (r : result A) : Prop :=
  match r with Ok _ => True | Err e => fam e = true \/ outside_model e = true end.

(* any text given as a query: a compiled query, or a JSONPath-family error; the parser's explicit
   fuel (4 * tokens + 16) always suffices, so "out of fuel" is not a possible outcome *)
Theorem C06_compile :
  forall (E : env) re_ok (text : ustr),
    match compile E re_ok text with
    | Ok _ => True
    | Err e => jsonpath_family e = true \/ outside_model e = true
    end.
Proof. exact ParseFuel.compile_family_total. Qed.
Print Assumptions C06_compile.

(* termination of compilation, stated on the fuel: the parser never runs out, for any token list *)
Theorem C06_parse_terminates :
  forall (E : env) re_ok (toks : list token), compile_tokens E re_ok toks <> Err EOutOfFuel.
Proof. exact ParseFuel.compile_tokens_fuel. Qed.
Print Assumptions C06_parse_terminates.

(* the lexer's fuel (one more than the length of the text) is irrelevant: any larger fuel gives the same tokens *)
Theorem C06_lex_fuel :
  forall (E : env) (s : ustr) (k : nat), tokenize_fuel (S (length s) + k) E s = tokenize E s.
Proof. exact ParseFuel.tokenize_fuel_enough. Qed.
Print Assumptions C06_lex_fuel.

(* evaluating anything that compiled, on any JSON value and filter context *)
Theorem C06_eval :
  forall (E : env) re_ok rf rs (text : ustr) (q : query) (d ctx : json),
    e_well_typed E = true ->
    compile E re_ok text = Ok q ->
    only jsonpath_family (compound_finditer E rf rs q d ctx).
Proof. exact ParseProofs.eval_family. Qed.
Print Assumptions C06_eval.

(* JSON Pointer text, resolution *)
Theorem C06_pointer :
  forall (mode : bool) (s : ustr) (p : pointer) (d : json),
    only pointer_family (Pointer.parse mode s) /\
    match resolve p d with
    | Ok _ => True
    | Err e => is_resolution_error e = true \/ outside_model e = true
    end.
Proof. exact FamilyProofs.pointer_family_only. Qed.
Print Assumptions C06_pointer.

(* Relative JSON Pointer text and application *)
Theorem C06_relpointer :
  forall (mode : bool) (s : ustr) (r : relptr) (base : pointer),
    only relpointer_family (rel_parse mode s) /\ only relpointer_family (to_ r base).
Proof. exact FamilyProofs.relpointer_family_only. Qed.
Print Assumptions C06_relpointer.

(* building and applying ANY list of patch operations - whatever tokens the pointers contain,
   documented extensions included - to any document *)
Theorem C06_patch :
  forall (mode : bool) (ods : list opdoc) (ops : list pop) (d : json),
    only patch_family (build mode ods) /\ only patch_family (Patch.apply ops d).
Proof. exact FamilyProofs.patch_family_only. Qed.
Print Assumptions C06_patch.

Example C06_examples :
  let c s := compile default_env (fun _ => Some false) s in
  (* $[1e2] *) c [36; 91; 49; 101; 50; 93]%N = Err (EJsonPath KSyntax) /\
  (* $[-:1] *) c [36; 91; 45; 58; 49; 93]%N = Err (EJsonPath KSyntax) /\
  (* $[?@ =~ /(/]  (the oracle says the pattern does not compile) *)
  c [36; 91; 63; 64; 32; 61; 126; 32; 47; 40; 47; 93]%N = Err (EJsonPath KSyntax) /\
  (* $[?@ == 1e999] *) c [36; 91; 63; 64; 32; 61; 61; 32; 49; 101; 57; 57; 57; 93]%N = Err (EJsonPath KSyntax).
Proof. vm_compute. repeat split; reflexivity. Qed.
