(* C02 — RFC 9535 filter expressions select exactly the nodes the RFC makes true.
   Statements only; proofs live in proofs/EvalProofs.v. *)
From JP Require PyStr Regex RegexSem RegexText RegexProofs RegexParseProofs.
From JP Require Import Base Json Syntax Eval Rfc9535 Rfc9535Typing EvalCorr EvalProofs.

(* [repr] (a specification operand and its run-time forms) and [node_of] are defined in
   spec/EvalCorr.v *)

(* the comparison table, for all operands (every JSON value at every depth, and Nothing) in
   every run-time form, and the six operators *)
Theorem C02_compare :
  forall re_full (a b : fval) (x y : option json) (o : binop),
    repr a x -> repr b y -> is_cmp o = true ->
    filter_compare re_full a o b = rfc_compare x o y.
Proof. exact EvalProofs.compare_agrees. Qed.
Print Assumptions C02_compare.

(* consequences named by the property *)
Corollary C02_absent_equals_only_absent :
  forall re_full (a b : fval) (x y : option json),
    repr a x -> repr b y ->
    filter_compare re_full a BEq b = match x, y with None, None => true | Some u, Some v => json_eq u v | _, _ => false end.
Proof. exact EvalProofs.absent_eq. Qed.

Corollary C02_order_only_numbers_or_strings :
  forall re_full (a b : fval) (x y : option json),
    repr a x -> repr b y -> filter_compare re_full a BLt b = true ->
    (exists m n, x = Some (JNum m) /\ y = Some (JNum n)) \/ (exists s t, x = Some (JStr s) /\ y = Some (JStr t)).
Proof. exact EvalProofs.order_domain. Qed.

Corollary C02_bool_never_number :
  forall (b : bool) (n : num) (pre post : list json),
    json_eq (JArr (pre ++ JBool b :: post)) (JArr (pre ++ JNum n :: post)) = false.
Proof. exact EvalProofs.bool_never_number. Qed.

(* every well-typed RFC filter, at every nesting depth ($ the query argument, @ the candidate):
   the children selected are exactly those the RFC makes true *)
Theorem C02_filter :
  forall (E : env) re_full re_search (e : fexpr) (root ctx : json) (m : jmatch),
    wt_logical false e = true -> dk_expr e = true ->
    exists ms, resolve_sel E re_full re_search (SFilter e) root ctx m = Ok ms /\
               map node_of ms = sel_nodes re_full re_search (e_keys E) (SFilter e) root ctx (node_of m).
Proof. exact EvalProofs.filter_agrees. Qed.
Print Assumptions C02_filter.

(* a bare query is an existence test, whatever value is found *)
Theorem C02_exists :
  forall (E : env) re_full re_search (p : segs) (root ctx cur key : json),
    wt_segs false p = true -> dk_segs p = true -> descent_ok p = true ->
    exists ns, eval_f E re_full re_search (FSelf p) root ctx cur key = Ok (VNodes ns) /\
               is_truthy (VNodes ns) = negb (Nat.eqb (length ns) 0) /\
               map node_of ns = segs_nodes re_full re_search (e_keys E) p root ctx [([], cur)].
Proof. exact EvalProofs.exists_test. Qed.
Print Assumptions C02_exists.

(* ---- match / search: the regular-expression engine of the model (rt/Regex.v: pattern parser and
   Brzozowski-derivative matcher, the oracle the extracted model runs) computes the denotational
   semantics of its dialect (spec/RegexSem.v `matches`: empty, character sets, concatenation,
   alternation, star - no anchors, back-references or look-around: I-Regexp matching).  match is a
   match of the WHOLE string, search a match of some substring. *)
Theorem C02_regex_match :
  forall pattern icase dotall r rest s,
    Regex.parse_regex dotall pattern = Regex.POk r rest ->
    icase && (negb (PyStr.is_ascii pattern) || negb (PyStr.is_ascii s)) = false ->
    (Regex.regex_fullmatch pattern icase dotall s = Some (Some true) <-> RegexSem.matches icase r s) /\
    (Regex.regex_fullmatch pattern icase dotall s = Some (Some false) <-> ~ RegexSem.matches icase r s).
Proof. exact RegexProofs.regex_fullmatch_spec. Qed.
Print Assumptions C02_regex_match.

Theorem C02_regex_search :
  forall pattern r rest s,
    Regex.parse_regex false pattern = Regex.POk r rest ->
    (Regex.regex_search pattern s = Some (Some true) <-> RegexSem.matches_somewhere false r s) /\
    (Regex.regex_search pattern s = Some (Some false) <-> ~ RegexSem.matches_somewhere false r s).
Proof. exact RegexProofs.regex_search_spec. Qed.
Print Assumptions C02_regex_search.

(* the pattern text of the dialect (spec/RegexText.v) parses to a regex equivalent to its meaning *)
Theorem C02_regex_text :
  forall icase dotall x,
    RegexText.valid_alt x = true ->
    exists r', Regex.parse_regex dotall (RegexText.regex_text x) = Regex.POk r' [] /\
               RegexSem.re_equiv icase r' (RegexText.alt_re dotall x).
Proof. exact RegexParseProofs.regex_text_parses. Qed.
Print Assumptions C02_regex_text.

Example C02_example :
  (* $[?@.a == $.k && !(@.b < 2)]  on  {"k": 1, "x": {"a": 1, "b": 5}, "y": {"a": true, "b": 5}} *)
  let nm c := [c]%N in let n z := JNum (num_of_Z z) in
  let e := FInfix (FInfix (FSelf (PCons (GSel (SName (nm 97%N))) PNil)) BEq (FRoot false (PCons (GSel (SName (nm 107%N))) PNil)))
                  BAnd (FNot (FInfix (FSelf (PCons (GSel (SName (nm 98%N))) PNil)) BLt (FInt 2%Z))) in
  let d := JObj [(nm 107%N, n 1%Z); (nm 120%N, JObj [(nm 97%N, n 1%Z); (nm 98%N, n 5%Z)]);
                 (nm 121%N, JObj [(nm 97%N, JBool true); (nm 98%N, n 5%Z)])] in
  wt_logical false e = true /\
  sel_nodes (fun _ _ _ => None) (fun _ _ => None) [126%N] (SFilter e) d (JObj []) ([], d)
    = [([PKey (nm 120%N)], JObj [(nm 97%N, n 1%Z); (nm 98%N, n 5%Z)])].
Proof. vm_compute. split; reflexivity. Qed.
