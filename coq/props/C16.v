(* C16 — Relative JSON Pointers are parsed, printed and applied per the draft.
   Statements only; proofs live in proofs/RelPointerProofs.v. *)
From JP Require Import Base Json PyStr Pointer RelPointer Rfc6901 RelPtrDraft PointerDomain RelPointerProofs RelPtrTotal.

Definition mode_ok (mode : bool) (s : ustr) : Prop := mode = false \/ no_backslash s = true.

(* the parsed relative pointer carries what the draft grammar says the text contains *)
Definition rel_agrees (rp : relptr) (rel : drel) : Prop :=
  r_origin rp = d_steps rel /\ r_index rp = d_offset rel /\
  match r_pointer rp, d_suffix rel with
  | SHash, DHash => True
  | SPtr p, DPtr ts => tokens p = ts
  | _, _ => False
  end.

Definition suffix_within_limits (rel : drel) : bool :=
  match d_suffix rel with DHash => true | DPtr ts => tokens_within_limits ts end.

(* every text of the draft grammar (offsets of any number of digits) parses, and prints back
   as the same text *)
Theorem C16_parse_print :
  forall (mode : bool) (r : ustr) (rel : drel),
    draft_parse r = Some rel -> mode_ok mode r -> suffix_within_limits rel = true ->
    exists rp, rel_parse mode r = Ok rp /\ to_text rp = r /\ rel_agrees rp rel.
Proof. exact RelPointerProofs.parse_print. Qed.
Print Assumptions C16_parse_print.

(* applying it to a base pointer yields the draft's result, and the applications the draft
   forbids are refused with a relative-pointer error *)
Theorem C16_apply :
  forall (rp : relptr) (rel : drel) (base : pointer),
    rel_agrees rp rel ->
    offset_applicable rel (tokens base) = true ->
    match draft_apply rel (tokens base) with
    | Some ts => exists q, to_ rp base = Ok q /\ tokens q = ts
    | None => exists k, to_ rp base = Err (ERelPointer k)
    end.
Proof. exact RelPointerProofs.apply_spec. Qed.
Print Assumptions C16_apply.

(* the draft grammar is inhabited by EVERY abstract relative pointer with non-negative steps:
   the hypothesis `draft_parse r = Some rel` of C16_parse_print is satisfiable for every rel *)
Theorem C16_grammar_inhabited :
  forall rel : drel, (0 <= d_steps rel)%Z -> draft_parse (draft_print rel) = Some rel.
Proof. exact RelPtrTotal.draft_parse_print. Qed.
Print Assumptions C16_grammar_inhabited.

(* hence, with no hypothesis about text at all: every abstract relative pointer has a text that the
   model (plain RFC 6901 mode) parses to it and prints back *)
Theorem C16_every_relative_pointer_has_a_text :
  forall rel : drel, (0 <= d_steps rel)%Z -> suffix_within_limits rel = true ->
    exists rp, rel_parse false (draft_print rel) = Ok rp /\ to_text rp = draft_print rel /\ rel_agrees rp rel.
Proof.
  intros rel Hs Hl.
  exact (C16_parse_print false (draft_print rel) rel (RelPtrTotal.draft_parse_print rel Hs) (or_introl eq_refl) Hl).
Qed.
Print Assumptions C16_every_relative_pointer_has_a_text.

(* the draft's own sanity laws, transferred to the model by C16_apply: going up k levels and back
   down along the removed tokens is the identity; more steps than the base has tokens is refused *)
Theorem C16_up_then_down :
  forall (rp : relptr) (base : pointer) (k : nat),
    (k <= length (tokens base))%nat ->
    rel_agrees rp (mkDRel (Z.of_nat k) 0%Z (DPtr (skipn (length (tokens base) - k) (tokens base)))) ->
    exists q, to_ rp base = Ok q /\ tokens q = tokens base.
Proof.
  intros rp base k Hk Hag.
  pose proof (C16_apply rp _ base Hag) as H.
  rewrite (RelPtrTotal.up_then_down_identity (tokens base) k Hk) in H.
  apply H. unfold offset_applicable. reflexivity.
Qed.
Print Assumptions C16_up_then_down.

Theorem C16_beyond_base_refused :
  forall (rp : relptr) (rel : drel) (base : pointer),
    rel_agrees rp rel -> offset_applicable rel (tokens base) = true ->
    (Z.of_nat (length (tokens base)) < d_steps rel)%Z ->
    exists k, to_ rp base = Err (ERelPointer k).
Proof.
  intros rp rel base Hag Hoff Hlt.
  pose proof (C16_apply rp rel base Hag Hoff) as H.
  destruct rel as [st off sfx]. cbn [d_steps] in Hlt.
  rewrite (RelPtrTotal.beyond_base_forbidden (tokens base) st off sfx Hlt) in H. exact H.
Qed.
Print Assumptions C16_beyond_base_refused.

Example C16_example :
  let r := [49; 43; 49; 48; 47; 120]%N in                             (* 1+10/x *)
  let base := [PStr [97%N]; PInt 3; PStr [98%N]] in                    (* /a/3/b *)
  (exists rel, draft_parse r = Some rel /\ offset_applicable rel (tokens base) = true /\
               draft_apply rel (tokens base) = Some [[97%N]; [49%N; 51%N]; [120%N]]) /\
  (exists rp, rel_parse true r = Ok rp /\ to_text rp = r /\
              to_ rp base = Ok [PStr [97%N]; PStr [49%N; 51%N]; PStr [120%N]]) /\
  (exists rp, rel_parse true [48; 35]%N = Ok rp /\ to_ rp [] = Err (ERelPointer KRelIndex)).
Proof.
  cbv zeta. split; [|split].
  - eexists. split; [vm_compute; reflexivity|]. split; vm_compute; reflexivity.
  - eexists. split; [vm_compute; reflexivity|]. split; vm_compute; reflexivity.
  - eexists. split; vm_compute; reflexivity.
Qed.
