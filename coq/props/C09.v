(* C09 — evaluation is pure: unaffected by caching (the part that is logic).
   Statements only; proofs live in proofs/CacheProofs.v.

   model/Cache.v threads the cells of CachingFilterExpression through the candidates of one
   Filter.resolve call exactly as the code does; model/Eval.v has no cache at all.
   In a functional model "the n-th evaluation equals the first", "interleaved iterators are
   independent" and "nothing is modified" hold by construction and say nothing about the code;
   those clauses are checked on the implementation (histories over one compiled object, every
   interleaving of 2-3 iterators, thread pool, deep comparison before/after): partial. *)
From JP Require Import Base Json Syntax Eval Cache CacheProofs.

(* the volatility flag is sound: a non-volatile expression does not depend on the candidate *)
Theorem C09_volatile_sound :
  forall (E : env) rf rs (e : fexpr) (root ctx cur key cur' key' : json),
    volatile e = false ->
    eval_f E rf rs e root ctx cur key = eval_f E rf rs e root ctx cur' key'.
Proof. exact CacheProofs.nonvolatile_indep. Qed.
Print Assumptions C09_volatile_sound.

(* caching is transparent: with filter caching on or off, for every query, document and
   filter context, the result (matches, order, paths, and the error if any) is the same *)
Theorem C09_cache :
  forall (E : env) rf rs (p : jpath) (d ctx : json),
    finditer_c E rf rs p d ctx = finditer E rf rs p d ctx.
Proof. exact CacheProofs.cache_transparent. Qed.
Print Assumptions C09_cache.

Example C09_example :
  (* $[?$.k == 1 && @.a == $.k]  on  {"k": 1, "x": {"a": 1}, "y": {"a": 2}} : $.k == 1 and $.k are cached *)
  let nm c := [c]%N in let n z := JNum (num_of_Z z) in
  let k := FRoot false (PCons (GSel (SName (nm 107%N))) PNil) in
  let e := FInfix (FInfix k BEq (FInt 1%Z)) BAnd (FInfix (FSelf (PCons (GSel (SName (nm 97%N))) PNil)) BEq k) in
  let p := mkPath false (PCons (GList (LCons (SFilter e) LNil)) PNil) in
  let d := JObj [(nm 107%N, n 1%Z); (nm 120%N, JObj [(nm 97%N, n 1%Z)]); (nm 121%N, JObj [(nm 97%N, n 2%Z)])] in
  any_cacheable e = true /\ volatile e = true /\ cacheable (FInfix k BEq (FInt 1%Z)) = true /\
  option_map (map m_parts) (match finditer_c default_env (fun _ _ _ => None) (fun _ _ => None) p d (JObj []) with
                            | Ok ms => Some ms | Err _ => None end) = Some [[PKey (nm 120%N)]].
Proof. vm_compute. repeat split; reflexivity. Qed.
