(* C20 — match -> pointer -> patch edits exactly the matched node.
   Statements only; proofs live in proofs/PatchProofs.v.
   A match's parts are its location (C03); its pointer takes those parts verbatim
   (Pointer.of_loc models JSONPointer.from_match). *)
From JP Require Import Base Json PyStr Pointer Patch Rfc6901 Rfc6902 Edit PatchProofs.

Theorem C20_compose :
  forall (d : json) (l : loc) (v x : json),
    wf_json d = true -> node_at d l = Some v ->
    let p := of_loc l in
    Patch.apply [OpTest p v] d = Ok d /\
    (exists d', replace_at d l x = Some d' /\ Patch.apply [OpReplace p x] d = Ok d') /\
    (l <> [] -> exists d', delete_at d l = Some d' /\ Patch.apply [OpRemove p] d = Ok d') /\
    (l = [] -> exists k, Patch.apply [OpRemove p] d = Err (EPatch k)).
Proof. exact PatchProofs.compose. Qed.
Print Assumptions C20_compose.

(* "differs at exactly that location": what replace_at and delete_at mean *)
Theorem C20_replace_exact :
  forall (d : json) (l : loc) (x d' : json),
    replace_at d l x = Some d' ->
    node_at d' l = Some x /\
    forall l', (forall k, l' <> l ++ k) -> (forall k, l <> l' ++ k) -> node_at d' l' = node_at d l'.
Proof. exact PatchProofs.replace_at_exact. Qed.
Print Assumptions C20_replace_exact.

Example C20_example :
  let d := JObj [([49%N], JArr [JNull; JBool true]); ([126%N; 47%N], JNull)] in      (* {"1": [null, true], "~/": null} *)
  let l := [PKey [49%N]; PIdx 1] in
  node_at d l = Some (JBool true) /\
  Patch.apply [OpTest (of_loc l) (JBool true)] d = Ok d /\
  Patch.apply [OpRemove (of_loc l)] d = Ok (JObj [([49%N], JArr [JNull]); ([126%N; 47%N], JNull)]) /\
  Patch.apply [OpReplace (of_loc [PKey [126%N; 47%N]]) (JBool false)] d
    = Ok (JObj [([49%N], JArr [JNull; JBool true]); ([126%N; 47%N], JBool false)]).
Proof. vm_compute. repeat split; reflexivity. Qed.
