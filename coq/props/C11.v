(* C11 — all query entry points agree with one another (the part that is logic).
   Statements only; proofs live in proofs/EvalProofs.v.
   json.loads / file objects / environment-level delegation are runtime glue: the harness runs
   every entry point on {value, JSON text, StringIO, BytesIO} and compares (partial). *)
From JP Require Import Base Json Syntax Eval Rfc9535 Rfc9535Typing EvalProofs.

(* find-all is the list of values of find-iter *)
Theorem C11_findall :
  forall (E : env) rf rs (p : jpath) (d ctx : json),
    findall E rf rs p d ctx = (ms <- finditer E rf rs p d ctx ;; Ok (map m_val ms)).
Proof. exact EvalProofs.findall_is_values. Qed.

(* match is the first element of find-iter, or nothing *)
Theorem C11_match :
  forall (E : env) rf rs (p : jpath) (d ctx : json),
    match_ E rf rs p d ctx = (ms <- finditer E rf rs p d ctx ;; Ok (hd_error ms)).
Proof. exact EvalProofs.match_is_first. Qed.

(* the two separate compound implementations - list-based findall and iterator-based finditer -
   agree, for any number of | and & operands *)
Theorem C11_compound :
  forall (E : env) rf rs (q : query) (d ctx : json),
    compound_findall E rf rs q d ctx = (ms <- compound_finditer E rf rs q d ctx ;; Ok (map m_val ms)).
Proof. exact EvalProofs.compound_agree. Qed.
Print Assumptions C11_compound.

(* union = left then right; intersection = left restricted to values also produced by the right;
   applied left to right *)
Theorem C11_compound_spec :
  forall (E : env) rf rs (q : query) (d ctx : json) (ms : list jmatch),
    compound_finditer E rf rs q d ctx = Ok ms ->
    exists first, finditer E rf rs (q_first q) d ctx = Ok first /\
      match q_rest q with
      | [] => ms = first
      | [(OpUnion, p)] => exists r, finditer E rf rs p d ctx = Ok r /\ ms = first ++ r
      | [(OpIntersect, p)] => exists r, finditer E rf rs p d ctx = Ok r /\
                               ms = filter (fun m => existsb (fun x => py_eq x (m_val m)) (map m_val r)) first
      | _ => True
      end.
Proof. exact EvalProofs.compound_shape. Qed.

Example C11_example :
  let nm c := [c]%N in let n z := JNum (num_of_Z z) in
  let pa := mkPath false (PCons (GSel (SName (nm 97%N))) (PCons (GSel SWild) PNil)) in     (* $.a.* *)
  let pb := mkPath false (PCons (GSel (SName (nm 98%N))) (PCons (GSel SWild) PNil)) in     (* $.b.* *)
  let d := JObj [(nm 97%N, JArr [n 1%Z; n 2%Z; n 3%Z]); (nm 98%N, JArr [n 3%Z; n 1%Z])] in
  compound_findall default_env (fun _ _ _ => None) (fun _ _ => None)
    (mkQuery pa [(OpIntersect, pb); (OpUnion, pb)]) d (JObj []) = Ok [n 1%Z; n 3%Z; n 3%Z; n 1%Z].
Proof. vm_compute. reflexivity. Qed.
