(* C03 — every match location (path, parts, pointer) identifies exactly that node.
   Statements only; proofs live in proofs/LocationProofs.v.
   Parent/children links are run-time object references: checked on the implementation by the
   harness.  "The path, compiled again" is split: the compiled form of a normalized path is
   [path_of_loc] (props/C03Syntax.v, parser model); its evaluation is C03_path_query below. *)
From JP Require Import Base Json PyStr Syntax Eval Pointer Rfc6901 PointerDomain NormPath NoKeys LocationProofs.

(* for every $-rooted query without the keys selector: each match's parts are the location of
   its value in the document, and its path is the RFC 9535 normalized path of that location *)
Theorem C03_location :
  forall (E : env) rf rs (p : segs) (d ctx : json) (ms : list jmatch) (m : jmatch),
    wf_json d = true ->
    e_root E = [36%N] -> top_nokeys p = true ->
    finditer E rf rs (mkPath false p) d ctx = Ok ms -> In m ms ->
    node_at d (m_parts m) = Some (m_val m) /\ m_path m = normpath (m_parts m).
Proof. exact LocationProofs.location_partial. Qed.
Print Assumptions C03_location.

(* [wf_json d] (member names pairwise distinct in every object - true of every Python dict) is
   needed: on a value with a repeated member name the statement fails *)
Theorem C03_location_without_wf_refuted :
  ~ (forall (E : env) rf rs (p : segs) (d ctx : json) (ms : list jmatch) (m : jmatch),
       e_root E = [36%N] -> top_nokeys p = true ->
       finditer E rf rs (mkPath false p) d ctx = Ok ms -> In m ms ->
       node_at d (m_parts m) = Some (m_val m) /\ m_path m = normpath (m_parts m)).
Proof. exact LocationProofs.location_refuted. Qed.

(* the path is syntactically a normalized path, whatever the names contain *)
Theorem C03_valid : forall (l : loc), valid_normpath (normpath l) = true.
Proof. exact LocationProofs.normpath_valid. Qed.
Print Assumptions C03_valid.

(* two matches have equal paths if and only if they denote the same node *)
Theorem C03_injective : forall (l1 l2 : loc), normpath l1 = normpath l2 <-> l1 = l2.
Proof. exact LocationProofs.normpath_injective. Qed.
Print Assumptions C03_injective.

(* the query a normalized path stands for selects exactly that one node *)
Theorem C03_path_query :
  forall (E : env) rf rs (d ctx v : json) (l : loc),
    e_root E = [36%N] -> node_at d l = Some v ->
    finditer E rf rs (mkPath false (path_of_loc l)) d ctx = Ok [mkMatch v l (normpath l)].
Proof. exact LocationProofs.path_query. Qed.
Print Assumptions C03_path_query.

(* the pointer built from the parts (JSONPointer.from_match), and its string form parsed again,
   resolve to the same node *)
Theorem C03_pointer :
  forall (d : json) (l : loc) (v : json),
    node_at d l = Some v ->
    resolve (of_loc l) d = Ok (RNode l v) /\
    encode (of_loc l) = spell_loc l /\
    (forall mode, (mode = false \/ no_backslash (spell_loc l) = true) ->
       tokens_within_limits (map part_token l) = true ->
       exists p', Pointer.parse mode (encode (of_loc l)) = Ok p' /\ resolve p' d = Ok (RNode l v)).
Proof. exact LocationProofs.pointer_of_location. Qed.
Print Assumptions C03_pointer.

Example C03_example :
  (* {"a'\\": [null, {"\n": true}]} : the location of true *)
  let k1 := [97; 39; 92]%N in let k2 := [10%N] in
  let l := [PKey k1; PIdx 1; PKey k2] in
  normpath l = [36; 91; 39; 97; 92; 39; 92; 92; 39; 93; 91; 49; 93; 91; 39; 92; 110; 39; 93]%N /\   (* $['a\'\\'][1]['\n'] *)
  valid_normpath (normpath l) = true.
Proof. vm_compute. split; reflexivity. Qed.
