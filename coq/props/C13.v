(* C13 — documented non-standard syntax means what the documentation says (evaluation part),
   and the general evaluator theorem from which C01, C02, C06 (evaluation) and C11 (compound
   semantics) are corollaries.  Statements only; proofs live in proofs/EvalProofs.v.

   spec/Rfc9535.v is RFC 9535 extended with the documented constructs (keys selector, fake
   root, #, _, in/contains, =~, <>, undefined); spec/Rfc9535Typing.v says which queries are
   well-formed and well-typed (ext_query).  The alias spellings (and/or/not, nil/none,
   capitalised literals, missing, implicit root, bare names in brackets) are a lexer/parser
   matter: they produce the same compiled query, see C13_aliases in props/C13Syntax.v. *)
From JP Require Import Base Json Syntax Eval Rfc9535 Rfc9535Typing EvalCorr EvalProofs.

(* For every well-typed query (simple or compound, standard or extended), every document and
   every filter context, evaluation succeeds and yields exactly the specified node sequence:
   same locations, same values, same order, same multiplicity. *)
Theorem C13_semantics :
  forall (E : env) re_full re_search (q : query) (d ctx : json),
    ext_query q = true ->
    exists ms, compound_finditer E re_full re_search q d ctx = Ok ms /\
               map node_of ms = query_nodes re_full re_search (e_keys E) q d ctx.
Proof. exact EvalProofs.semantics. Qed.
Print Assumptions C13_semantics.

(* left in right  <->  right contains left, for every pair of expressions *)
Theorem C13_in_contains :
  forall (E : env) re_full re_search (l r : fexpr) (root ctx cur key : json),
    eval_f E re_full re_search (FInfix l BIn r) root ctx cur key =
    eval_f E re_full re_search (FInfix r BContains l) root ctx cur key
    \/ (exists e, eval_f E re_full re_search l root ctx cur key = Err e)
    \/ (exists e, eval_f E re_full re_search r root ctx cur key = Err e).
Proof. exact EvalProofs.in_contains. Qed.
Print Assumptions C13_in_contains.

(* <> equals != *)
Theorem C13_lg_is_ne :
  forall (E : env) re_full re_search (l r : fexpr) (root ctx cur key : json),
    eval_f E re_full re_search (FInfix l BLg r) root ctx cur key =
    eval_f E re_full re_search (FInfix l BNe r) root ctx cur key.
Proof. exact EvalProofs.lg_is_ne. Qed.
Print Assumptions C13_lg_is_ne.

Example C13_example :
  (* $.o[?# in _.names].~  on {"o": {"a": {"x": 1}, "c": {"y": 2}}} with context {"names": ["a"]} *)
  let names := [110; 97; 109; 101; 115]%N in
  let q := mkQuery (mkPath false
             (PCons (GSel (SName [111%N]))
             (PCons (GList (LCons (SFilter (FInfix FKey BIn (FCtx (PCons (GSel (SName names)) PNil)))) LNil))
             (PCons (GSel SKeys) PNil)))) [] in
  let d := JObj [([111%N], JObj [([97%N], JObj [([120%N], JNum (num_of_Z 1%Z))]); ([99%N], JObj [([121%N], JNum (num_of_Z 2%Z))])])] in
  let ctx := JObj [(names, JArr [JStr [97%N]])] in
  ext_query q = true /\
  query_nodes (fun _ _ _ => None) (fun _ _ => None) [126%N] q d ctx
    = [([PKey [111%N]; PKey [97%N]; PKey [126%N; 120%N]], JStr [120%N])].
Proof. vm_compute. split; reflexivity. Qed.
