(* C19 — projection returns exactly the selected values, nothing more.
   Statements only; proofs live in proofs/ProjectProofs.v.
   "The document is not modified" has no counterpart in a value model (there is no write
   operation to rule out): it is checked on the implementation by the harness (partial). *)
From JP Require Import Base Json Syntax Eval Project ProjectSpec ProjectProofs ProjectNested.

(* what the relative queries selected below the match: each selection's parts are its location
   relative to the match (C03_location), pairwise distinct and non-nested, ascending per array *)
Definition located (v : json) (sels : list jmatch) : Prop :=
  forall s, In s sels -> node_at v (m_parts s) = Some (m_val s).

(* flat projection: the list of the selected values in selection order *)
Theorem C19_flat :
  forall (E : env) rf rs (exprs : list query) (m : jmatch) (sels : list jmatch),
    is_container (m_val m) = true ->
    selected E rf rs exprs (m_val m) = Ok sels ->
    select_one E rf rs ProjFlat exprs m = Ok (Some (JArr (map m_val sels))).
Proof. exact ProjectProofs.flat_spec. Qed.
Print Assumptions C19_flat.

(* relative projection: every selected node's value is found by following its relative location
   with array indices replaced by ranks, and there are no other leaves; equal as JSON values
   (object member order is not significant) to the specification's tree *)
Theorem C19_relative :
  forall (E : env) rf rs (exprs : list query) (m : jmatch) (sels : list jmatch),
    is_container (m_val m) = true -> wf_json (m_val m) = true ->
    selected E rf rs exprs (m_val m) = Ok sels ->
    located (m_val m) sels ->
    selections_ok (map m_parts sels) = true ->
    exists j, select_one E rf rs ProjRelative exprs m = Ok (Some j) /\
      match project_tree (m_val m) (map m_parts sels) with
      | Some t => json_eq j t = true
      | None => sels = [] /\ j = JObj []
      end.
Proof. exact ProjectProofs.relative_spec. Qed.
Print Assumptions C19_relative.

(* root projection: the same, located from the document root *)
Theorem C19_root :
  forall (E : env) rf rs (exprs : list query) (d : json) (m : jmatch) (sels : list jmatch),
    is_container (m_val m) = true -> wf_json d = true ->
    node_at d (m_parts m) = Some (m_val m) ->
    selected E rf rs exprs (m_val m) = Ok sels ->
    located (m_val m) sels ->
    selections_ok (map m_parts sels) = true ->
    exists j, select_one E rf rs ProjRoot exprs m = Ok (Some j) /\
      match project_root d (m_parts m) (map m_parts sels) with
      | Some t => json_eq j t = true
      | None => sels = [] /\ j = JObj []
      end.
Proof. exact ProjectProofs.root_spec. Qed.
Print Assumptions C19_root.

(* the same two clauses on the widest domain: selections in any order, repeated or nested in one
   another (a node selected whole before or after its descendants), provided that below an already
   selected node only member names follow - ProjectSpec.selections_deep_ok, which contains both
   selections_ok and every keys-only list of selections *)
Theorem C19_relative_deep :
  forall (E : env) rf rs (exprs : list query) (m : jmatch) (sels : list jmatch),
    is_container (m_val m) = true -> wf_json (m_val m) = true ->
    selected E rf rs exprs (m_val m) = Ok sels ->
    located (m_val m) sels ->
    selections_deep_ok (map m_parts sels) = true ->
    exists j, select_one E rf rs ProjRelative exprs m = Ok (Some j) /\
      match project_tree (m_val m) (map m_parts sels) with
      | Some t => json_eq j t = true
      | None => sels = [] /\ j = JObj []
      end.
Proof. exact ProjectNested.relative_deep. Qed.
Print Assumptions C19_relative_deep.

Theorem C19_root_deep :
  forall (E : env) rf rs (exprs : list query) (d : json) (m : jmatch) (sels : list jmatch),
    is_container (m_val m) = true -> wf_json d = true ->
    node_at d (m_parts m) = Some (m_val m) ->
    selected E rf rs exprs (m_val m) = Ok sels ->
    located (m_val m) sels ->
    selections_deep_ok (map m_parts sels) = true ->
    exists j, select_one E rf rs ProjRoot exprs m = Ok (Some j) /\
      match project_root d (m_parts m) (map m_parts sels) with
      | Some t => json_eq j t = true
      | None => sels = [] /\ j = JObj []
      end.
Proof. exact ProjectNested.root_deep. Qed.
Print Assumptions C19_root_deep.

Theorem C19_domains :
  forall ls, (selections_ok ls = true -> selections_deep_ok ls = true) /\
             (keys_only ls = true -> selections_deep_ok ls = true).
Proof. exact ProjectNested.deep_domains. Qed.
Print Assumptions C19_domains.

(* matches that are not containers, and matches for which nothing is selected, produce no projection *)
Theorem C19_none :
  forall (E : env) rf rs (style : projection) (exprs : list query) (m : jmatch),
    (is_container (m_val m) = false -> select_one E rf rs style exprs m = Ok None) /\
    (is_container (m_val m) = true -> selected E rf rs exprs (m_val m) = Ok [] ->
       exists j, select_one E rf rs style exprs m = Ok (Some j) /\ truthy_result j = false).
Proof. exact ProjectProofs.none_spec. Qed.
Print Assumptions C19_none.

Example C19_example :
  (* match {"a": [10, 20, 30], "b": {"c": 1, "d": 2}} ; select $.a[0], $.a[2], $.b.d *)
  let nm c := [c]%N in let n z := JNum (num_of_Z z) in
  let v := JObj [(nm 97%N, JArr [n 10%Z; n 20%Z; n 30%Z]); (nm 98%N, JObj [(nm 99%N, n 1%Z); (nm 100%N, n 2%Z)])] in
  let sels := [[PKey (nm 97%N); PIdx 0]; [PKey (nm 97%N); PIdx 2]; [PKey (nm 98%N); PKey (nm 100%N)]] in
  selections_ok sels = true /\
  project_tree v sels = Some (JObj [(nm 97%N, JArr [n 10%Z; n 30%Z]); (nm 98%N, JObj [(nm 100%N, n 2%Z)])]).
Proof. vm_compute. split; reflexivity. Qed.
