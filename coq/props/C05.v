(* C05 — JSON Patch application conforms to RFC 6902 for every document and patch.
   Statements only; proofs live in proofs/PatchProofs.v. *)
From JP Require Import Base Json PyStr Pointer Patch Rfc6901 Rfc6902 PointerDomain PatchCorr PatchProofs.

(* normal_part, std_pointer, corresponds, refines: see spec/PatchCorr.v *)

Theorem C05_apply :
  forall (ops : list pop) (rops : list rop) (d : json),
    Forall2 corresponds ops rops ->
    refines (Patch.apply ops d) (rfc_apply rops d).
Proof. exact PatchProofs.apply_refines. Qed.
Print Assumptions C05_apply.

(* in particular no built-in exception ever escapes from a standard patch *)
Corollary C05_no_builtin :
  forall (ops : list pop) (rops : list rop) (d : json) (e : exn),
    Forall2 corresponds ops rops -> Patch.apply ops d = Err e -> exists k, e = EPatch k.
Proof. exact PatchProofs.apply_no_builtin. Qed.
Print Assumptions C05_no_builtin.

(* the cases the property names, as concrete instances (non-vacuity) *)
Example C05_examples :
  let a := [97%N] in let one := JNum (num_of_Z 1) in let two := JNum (num_of_Z 2) in
  (* add at index = length, and at "-" *)
  Patch.apply [OpAdd [PInt 2] two] (JArr [one; one]) = Ok (JArr [one; one; two]) /\
  Patch.apply [OpAdd [PStr [45%N]] two] (JArr [one]) = Ok (JArr [one; two]) /\
  (* index beyond the length is refused *)
  Patch.apply [OpAdd [PInt 3] two] (JArr [one]) = Err (EPatch KPatch) /\
  (* move and copy to "-" *)
  Patch.apply [OpMove [PStr a] [PStr [98%N]; PStr [45%N]]] (JObj [(a, one); ([98%N], JArr [])])
    = Ok (JObj [([98%N], JArr [one])]) /\
  (* a member whose name looks like an integer *)
  Patch.apply [OpRemove [PInt 1]] (JObj [([49%N], one)]) = Ok (JObj []) /\
  (* move into own child *)
  Patch.apply [OpMove [PStr a] [PStr a; PStr a]] (JObj [(a, JObj [])]) = Err (EPatch KPatch) /\
  (* test: deep, boolean is not a number *)
  Patch.apply [OpTest [] (JArr [one])] (JArr [JBool true]) = Err (EPatch KPatchTest) /\
  Patch.apply [OpTest [] (JArr [JNum (mkNum true 2 2)])] (JArr [one]) = Ok (JArr [one]).
Proof. vm_compute. repeat split; reflexivity. Qed.
