#!/bin/bash
# build.sh — full offline build: Coq development (.vo, never -vos), extraction, OCaml driver.
set -e
cd "$(dirname "$0")"
J=${VERIF_JOBS:-16}
( cd coq
  if [ ! -f Makefile ] || [ _CoqProject -nt Makefile ]; then coq_makefile -f _CoqProject -o Makefile >/dev/null; fi
  timeout 3000 make -j"$J" >build.log 2>&1 || { tail -40 build.log; echo "BUILD-FAILED coq"; exit 2; }
)
mkdir -p ocaml/_build
if [ ! -x ocaml/driver ] || [ coq/extract/model.ml -nt ocaml/driver ] || [ ocaml/driver.ml -nt ocaml/driver ]; then
  cp coq/extract/model.ml coq/extract/model.mli ocaml/driver.ml ocaml/_build/
  ( cd ocaml/_build && timeout 600 ocamlfind ocamlopt -O3 -w -a model.mli model.ml driver.ml -o ../driver 2>build.log \
      || timeout 600 ocamlfind ocamlopt -w -a model.mli model.ml driver.ml -o ../driver 2>build.log ) \
      || { tail -40 ocaml/_build/build.log; echo "BUILD-FAILED ocaml"; exit 2; }
fi
echo "BUILD-OK"
