#!/bin/bash
# build.sh [Cnn] — offline build.
#   no argument : regenerate gen/*.v from /repo, build the whole Coq development (.vo, never -vos),
#                 extract, build the OCaml driver            (MANIFEST.setup_cmd)
#   Cnn         : regenerate gen/*.v, build only what that property needs: the extraction (models and
#                 specs) + props/Cnn.vo and its proof closure, and the driver. A proof that breaks for
#                 another property therefore never disturbs this one.
cd "$(dirname "$0")"
J=${VERIF_JOBS:-16}
PY=/venv/bin/python
export VERIF_REPO=${VERIF_REPO:-/repo}
$PY translator/gen_unicode.py >/dev/null || { echo "BUILD-FAILED translator gen_unicode"; exit 2; }
$PY translator/gen_cli.py >/dev/null || { echo "BUILD-FAILED translator gen_cli"; exit 2; }
cd coq
if [ ! -f Makefile ] || [ _CoqProject -nt Makefile ]; then coq_makefile -f _CoqProject -o Makefile >/dev/null; fi
if [ -n "$1" ]; then
  timeout 3000 make -j"$J" extract/Extract.vo >build.log 2>&1 || { tail -40 build.log; echo "BUILD-FAILED coq-extract"; exit 2; }
  timeout 3000 make -j"$J" "props/$1.vo" >build_$1.log 2>&1 || { tail -40 build_$1.log; echo "BUILD-FAILED coq-props $1"; PROPFAIL=1; }
else
  timeout 3000 make -j"$J" >build.log 2>&1 || { tail -40 build.log; echo "BUILD-FAILED coq"; exit 2; }
fi
cd ..
mkdir -p ocaml/_build
if [ ! -x ocaml/driver ] || [ coq/extract/model.ml -nt ocaml/driver ] || [ ocaml/driver.ml -nt ocaml/driver ]; then
  cp coq/extract/model.ml coq/extract/model.mli ocaml/driver.ml ocaml/_build/
  ( cd ocaml/_build && timeout 600 ocamlfind ocamlopt -O3 -w -a model.mli model.ml driver.ml -o ../driver 2>build.log \
      || timeout 600 ocamlfind ocamlopt -w -a model.mli model.ml driver.ml -o ../driver 2>build.log ) \
      || { tail -40 ocaml/_build/build.log; echo "BUILD-FAILED ocaml"; exit 2; }
fi
if [ -n "$PROPFAIL" ]; then exit 3; fi
echo "BUILD-OK"
